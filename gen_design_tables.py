#!/usr/bin/env python3
"""fills the generated parts of DESIGN.md: §2 facts (kept from round 0), §10 (design_na.md), §11 table (seeded/RESULTS.json)"""
import json, os, re
V = os.path.dirname(os.path.abspath(__file__))
d = open(f"{V}/DESIGN.md").read()
res = json.load(open(f"{V}/seeded/RESULTS.json")) if os.path.exists(f"{V}/seeded/RESULTS.json") else {}
claimed = [c["property_id"] for c in json.load(open(f"{V}/MANIFEST.json"))["checks"]]
rows = ["| seed | breaks | what it changes | " + " | ".join(claimed) + " |", "|---|---|---|" + "---|" * len(claimed)]
for s in sorted(res):
    meta = json.load(open(f"{V}/seeded/{s}/meta.json"))
    summ = " ".join(str(meta.get("summary", "")).split())[:110].replace("|", "\\|")
    cells = []
    for p in claimed:
        c = res[s].get("checks", {}).get(p)
        if c is None:
            cells.append("·")
        elif c["exit"] == 1:
            cells.append("**VIOL** " + ",".join(f"`{x}`" for x in c["clauses"][:2]))
        elif c["exit"] == 0:
            cells.append("pass")
        else:
            cells.append("INC")
    rows.append(f"| {s} | {res[s].get('target','?')} | {summ} | " + " | ".join(cells) + " |")
table = "\n".join(rows)
def put(marker, begin, end, text):
    global d
    if marker in d:
        d = d.replace(marker, f"{begin}\n{text}\n{end}")
    else:
        d = re.sub(re.escape(begin) + r".*?" + re.escape(end), lambda m: f"{begin}\n{text}\n{end}", d, flags=re.S)
put("@@FACTS@@", "<!-- facts:begin -->", "<!-- facts:end -->", open("/tmp/design_facts.md").read().rstrip() if os.path.exists("/tmp/design_facts.md") else re.search(r"<!-- facts:begin -->\n(.*?)\n<!-- facts:end -->", d, re.S).group(1))
put("@@NA@@", "<!-- na:begin -->", "<!-- na:end -->", open(f"{V}/design_na.md").read().rstrip())
put("@@SEEDTABLE@@", "<!-- seedtable:begin -->", "<!-- seedtable:end -->", table)
open(f"{V}/DESIGN.md", "w").write(d)
print("DESIGN.md tables regenerated:", len(res), "seeds")
