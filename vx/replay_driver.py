"""Replay search: concrete enumerators over scrut's public API (built against /repo's working tree).
Never the deciding step; only attaches a failing input to a violation the verifier reported."""


def search(prop, failures, reg, seed):
    return {"status": "no enumerator registered for this property", "input": None}


def replay(prop, path):
    print("replay not implemented for", prop)
    return 2
