"""Replay search: attaches a concrete failing input to a violation the verifier reported; never the deciding step.

 * engine KX (Kani): CBMC's counterexample is parsed from the concrete-playback output and re-run as a plain
   `cargo test` (no Kani) on the items extracted from /repo's current tree.
 * engine VX (Verus) gives no counterexample: a bounded enumerator in /verif/replay (public API of the real crate)
   is run when one is registered for the property; otherwise the violation is reported with no-failing-input-found.
"""
import json
import os
import re
import subprocess

import vx


def kani_values(playback):
    vals = []
    for m in re.finditer(r"^\s*//\s*(-?\d+)(?:ul|l|u|)\s*$", playback, re.M):
        vals.append(int(m.group(1)))
    return vals


def run_kani_replay(unit, harness, vals):
    import kx
    crate = os.path.join(vx.BUILD, "kx_" + unit)
    # regenerate sources from the current tree (without running kani): reuse kx internals
    spec = kx.parse(os.path.join(kx.KDIR, unit + ".kx"))
    env = dict(os.environ, CARGO_NET_OFFLINE="true", KX_REPLAY=",".join(str(v) for v in vals))
    p = subprocess.run(["cargo", "test", "--offline", "--", "--exact", "replay::" + harness], cwd=crate, capture_output=True, text=True, env=env)
    out = p.stdout + p.stderr
    failed = "test result: FAILED" in out or "panicked" in out
    ran = "running 1 test" in out
    return ran, failed, out[-1500:]


def search(prop, failures, reg, seed):
    for f in failures:
        if f.get("kani"):
            vals = kani_values(f.get("rendered") or "")
            if not vals:
                return {"status": "kani gave no concrete values", "input": None}
            ran, failed, out = run_kani_replay(f["kani"]["unit"], f["kani"]["harness"], vals)
            if ran and failed:
                return {"status": "CBMC counterexample replayed with plain `cargo test` on the extracted real items: property function returns false",
                        "input": {"engine": "kani", "unit": f["kani"]["unit"], "harness": f["kani"]["harness"], "values": vals}, "output": out}
            return {"status": "counterexample did not reproduce outside Kani", "input": None, "output": out}
    try:
        import enumerators
    except ImportError:
        return {"status": "no enumerator registered for this property", "input": None}
    return enumerators.search(prop, failures, reg, seed)


def replay(prop, path):
    rep = json.load(open(path))
    inp = rep.get("failing_input")
    if not inp:
        print(f"replay file has no failing input (no-failing-input-found); failed obligations: "
              + ", ".join(o["clause"] for o in rep.get("failed_obligations", [])))
        return 2
    if inp.get("engine") == "kani":
        import kx
        kx.run(inp["unit"])  # regenerate the crate from the current tree
        ran, failed, out = run_kani_replay(inp["unit"], inp["harness"], inp["values"])
        print(out[-800:])
        if ran and failed:
            print(f"REPLAY property={prop}: input {inp['values']} still violates {inp['harness']} on the current tree")
            return 1
        print(f"REPLAY property={prop}: input no longer fails")
        return 0
    import enumerators
    return enumerators.replay(prop, inp)
