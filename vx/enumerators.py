"""bounded enumerators over the real crate (/verif/replay, path dependency on /repo): replay search + thorough-tier cross-checks"""
import json
import os
import subprocess

import vx

CRATE = os.environ.get("VERIF_REPLAY_CRATE") or os.path.join(vx.VERIF, "replay")  # a copy with its own path dependency for parallel seed workers
BIN = os.path.join(CRATE, "target", "debug", "verif-replay")

# property -> enumerator commands (bounded; the bound is part of the command line)
SEARCH = {
    "C01": [["diff", "C01", "3", "3"]],
    "C02": [["diff", "C02", "3", "3"]],
    "C03": [["diff", "C03", "3", "3"]],
    "C04": [["escape", "both", "3", "matching"], ["glob", "4"], ["regexkind"]],
    "C05": [["validate"]],
    "C06": [["markdown"], ["leaves", "markdown"]],
    "C07": [["leaves", "cram"]],
    "C11": [["escape", "both", "3"]],
    "C16": [["config"]],
    "C08": [["c08", "4"]],
    "C10": [["c10", "3"]],
    "C09": [["c09", "3"]],
    "C19": [["c19", "2"]],
    "C13": [["c13", "1"]],
    "C14": [["c14"]],
    "C15": [["c15", "2"]],
}
THOROUGH = {
    "C01": [["diff", "C01", "3", "4"]],
    "C02": [["diff", "C02", "3", "4"]],
    "C03": [["diff", "C03", "3", "4"]],
    "C04": [["axioms"], ["escape", "both", "3", "matching"], ["glob", "6"], ["regexkind"]],
    "C06": [["markdown"], ["leaves", "markdown"]],
    "C07": [["leaves", "cram"]],
    "C05": [["validate"]],
    "C11": [["axioms"], ["escape", "both", "4"]],
    "C16": [["config"]],
    "C08": [["c08", "6"]],
    "C10": [["c10", "4"]],
    "C09": [["c09", "5"]],
    "C19": [["c19", "4"]],
    "C13": [["c13", "3"]],
    "C14": [["c14"]],
    "C15": [["c15", "3"]],
}


def build():
    env = dict(os.environ, CARGO_NET_OFFLINE="true")
    p = subprocess.run(["cargo", "build", "--offline"], cwd=CRATE, capture_output=True, text=True, env=env)
    if p.returncode != 0:
        return False, (p.stderr or p.stdout)[-1500:]
    return True, ""


def run_cmd(args, timeout=3000):
    p = subprocess.run([BIN] + args, capture_output=True, text=True, timeout=timeout)
    try:
        return json.loads(p.stdout.strip().split("\n")[-1])
    except Exception:
        return {"cmd": args[0], "cases": 0, "violations": [], "error": (p.stderr or p.stdout)[-500:]}


def search(prop, failures, reg, seed):
    cmds = SEARCH.get(prop)
    if not cmds:
        return {"status": "no enumerator registered for this property", "input": None}
    ok, err = build()
    if not ok:
        return {"status": "replay crate does not build against the current tree: " + err[-300:], "input": None}
    tried = []
    for c in cmds:
        r = run_cmd(c)
        tried.append({"cmd": c, "cases": r.get("cases", 0)})
        if r.get("violations"):
            return {"status": "bounded enumeration over the real crate found a failing input", "input": {"engine": "enum", "cmd": c, "case": r["violations"][0]}, "tried": tried}
    return {"status": "bounded enumeration found no failing input within its bound", "input": None, "tried": tried}


def replay(prop, inp):
    if inp["cmd"][0] == "e2e":
        # a document recorded by the end-to-end engine: run it again through the binary built from the current tree
        import e2e
        ok, err = e2e.build()
        if not ok:
            print("the scrut binary does not build:", err[-300:])
            return 2
        c = inp["case"]["case"]
        rc, res, errtxt = e2e.scrut([tuple(d) for d in c["docs"]], tuple(c["args"]))
        print(json.dumps({"recorded": inp["case"]["why"], "now": {"exit": rc, "results": res}})[:1500])
        print(f"REPLAY property={prop}: the recorded documents were run again on the current tree (compare `now` with the expectation in `recorded`)")
        return 0
    ok, err = build()
    if not ok:
        print("replay crate does not build:", err[-300:])
        return 2
    case = inp["case"]
    if inp["cmd"][0] == "diff" and "case" in case:
        c = case["case"]
        es = ";".join(f"{int(e['optional'])},{int(e['multiline'])},{e['set']}" for e in c["expectations"])
        ls = ",".join(str(x) for x in c["lines"])
        r = run_cmd(["diff-one", es, ls, "1" if c["final_newline"] else "0", inp["cmd"][1]])
    else:
        r = run_cmd(inp["cmd"])
    print(json.dumps(r)[:1500])
    if r.get("violations"):
        print(f"REPLAY property={prop}: the recorded input still fails on the current tree")
        return 1
    print(f"REPLAY property={prop}: no longer fails")
    return 0
