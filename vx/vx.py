#!/usr/bin/env python3
"""vx — extract real scrut functions, splice sidecar contracts, run Verus, map errors to clauses.

Nothing here pretty-prints Rust: the extracted text is bytes of /repo's working tree; only the
"glue" of the rewrite rules (DESIGN.md §4.2) and the sidecar clauses are inserted between them.

Exit conventions are implemented by ../check; this module raises
  Inconclusive(reason)   lost anchor / unsupported construct / tool failure  (-> exit 2)
and returns a RunResult otherwise.
"""
import hashlib
import json
import os
import re
import subprocess
import sys
import time

VERIF = os.path.dirname(os.path.dirname(os.path.abspath(__file__)))
REPO = os.environ.get("VERIF_REPO", "/repo")
VXSPAN = os.path.join(VERIF, "vx", "vxspan", "target", "debug", "vxspan")
BUILD = os.environ.get("VERIF_BUILD_DIR") or os.path.join(VERIF, "build")  # per-worker scratch when the seed matrix runs in parallel


class Inconclusive(Exception):
    pass


# ---------------------------------------------------------------------------------------------
# source files + span trees


class Src:
    _cache = {}
    # negative controls: rel -> list of (old, new) textual replacements applied to an in-memory copy
    overrides = {}

    def __init__(self, rel):
        self.rel = rel
        self.path = os.path.join(REPO, rel)
        try:
            self.bytes = open(self.path, "rb").read()
        except OSError as e:
            raise Inconclusive(f"cannot read {self.path}: {e}")
        parse_path = self.path
        if rel in Src.overrides:
            t = self.bytes.decode()
            for old, new in Src.overrides[rel]:
                if t.count(old) != 1:
                    raise Inconclusive(f"control: pattern occurs {t.count(old)} times in {rel}: {old[:50]!r}")
                t = t.replace(old, new)
            self.bytes = t.encode()
            parse_path = os.path.join(BUILD, "mut", rel.replace("/", "__"))
            os.makedirs(os.path.dirname(parse_path), exist_ok=True)
            open(parse_path, "wb").write(self.bytes)
        # R20: zero-argument local `macro_rules! m { () => {{ BODY }}; }` inside function bodies are expanded textually
        # (each `m!()` becomes `{ BODY }`) before parsing, so that the rules below see ordinary expressions
        self.pre_rules = 0
        t = self.bytes.decode()
        for m in list(re.finditer(r"macro_rules!\s*(\w+)\s*\{\s*\(\s*\)\s*=>\s*\{\{", t)):
            name = m.group(1)
            # find the matching `}}` of the body by brace counting
            i = m.end()
            depth = 2
            j = i
            while j < len(t) and depth > 0:
                if t[j] == "{":
                    depth += 1
                elif t[j] == "}":
                    depth -= 1
                j += 1
            body = t[i:j - 2]
            k = t.index("}", j)  # closing brace of macro_rules (after optional `;`)
            uses = len(re.findall(r"\b" + name + r"!\(\)", t))
            if uses:
                t2 = t[:m.start()] + t[k + 1:]
                t2 = re.sub(r"\b" + name + r"!\(\)", lambda _m: "{" + body + "}", t2)
                t = t2
                self.pre_rules += uses
        # R32: `for X in [LIT, LIT, ..] { BODY }` (string/char literals only, BODY without break/continue) is unrolled
        # textually: `{ let X = LIT; BODY }` once per literal — BODY stays verbatim in every copy
        self.pre_rules32 = 0
        while True:
            m = re.search(r"for\s+(\w+)\s+in\s+\[((?:\s*(?:\"(?:[^\"\\\\]|\\\\.)*\"|'(?:[^'\\\\]|\\\\.)')\s*,?)+)\]\s*\{", t)
            if not m:
                break
            i = m.end()
            depth = 1
            j = i
            while j < len(t) and depth > 0:
                if t[j] == "{":
                    depth += 1
                elif t[j] == "}":
                    depth -= 1
                j += 1
            body_txt = t[i:j - 1]
            if re.search(r"\b(break|continue)\b", body_txt):
                break
            lits = re.findall(r"\"(?:[^\"\\\\]|\\\\.)*\"|'(?:[^'\\\\]|\\\\.)'", m.group(2))
            rep = "".join(f"{{ let {m.group(1)} = {l};{body_txt}}}\n" for l in lits)
            t = t[:m.start()] + rep + t[j:]
            self.pre_rules32 += 1
        if self.pre_rules32:
            self.pre_rules += self.pre_rules32
        if self.pre_rules:
            self.bytes = t.encode()
            parse_path = os.path.join(BUILD, "mut", rel.replace("/", "__"))
            os.makedirs(os.path.dirname(parse_path), exist_ok=True)
            open(parse_path, "wb").write(self.bytes)
        if not os.path.exists(VXSPAN):
            raise Inconclusive(f"{VXSPAN} not built (run MANIFEST.setup_cmd)")
        p = subprocess.run([VXSPAN, parse_path], capture_output=True)
        if p.returncode != 0:
            raise Inconclusive(f"vxspan failed on {rel}: {p.stderr.decode(errors='replace')[:300]}")
        self.tree = json.loads(p.stdout)
        _link(self.tree, None)

    @classmethod
    def get(cls, rel):
        if rel not in cls._cache:
            cls._cache[rel] = Src(rel)
        return cls._cache[rel]

    def text(self, n_or_s, e=None):
        if e is None:
            s, e = n_or_s["s"], n_or_s["e"]
        else:
            s = n_or_s
        return self.bytes[s:e].decode("utf-8")

    def line_of(self, off):
        return self.bytes.count(b"\n", 0, off) + 1


def _link(n, parent):
    n["p"] = parent
    n.setdefault("a", {})
    n.setdefault("c", [])
    for c in n["c"]:
        _link(c, n)


def kids(n, role=None, kind=None):
    return [c for c in n["c"] if (role is None or c["r"] == role) and (kind is None or c["k"] == kind)]


def kid(n, role):
    for c in n["c"]:
        if c["r"] == role:
            return c
    return None


def walk(n, skip_closures=False):
    """pre-order"""
    yield n
    for c in n["c"]:
        yield from walk(c)


def is_test_mod(n):
    return n["k"] == "Mod" and any(
        a["k"] == "Attr" and a["a"].get("path") == "cfg" for a in n["c"]
    )


def find_items(tree):
    """yield (container, item) for all items outside #[cfg(..)] mods"""
    for it in tree["c"]:
        if it["k"] == "Mod":
            if is_test_mod(it):
                continue
            yield from find_items(it)
        else:
            yield it


def norm(s):
    return re.sub(r"\s+", "", s)


def ancestors_until(x, stop):
    """the ancestors of node x up to (excluding) `stop`"""
    out = []
    a = x.get("p")
    while a is not None and a is not stop:
        out.append(a)
        a = a.get("p")
    return out


def find_fn(src, path):
    """path: 'name' (free fn) | 'Type::name' | '<Type as Trait>::name' (trait impl; compared
    whitespace-insensitively)"""
    m = re.match(r"^<(.+) as (.+)>::(\w+)$", path)
    cands = []
    if m:
        ty, tr, name = norm(m.group(1)), norm(m.group(2)), m.group(3)
        for it in find_items(src.tree):
            if it["k"] == "Impl" and norm(it["a"]["self_ty"]) == ty and norm(it["a"].get("trait", "")) == tr:
                for f in kids(it, kind="Fn"):
                    if f["a"]["ident"] == name:
                        cands.append((it, f))
    elif "::" in path:
        ty, name = path.rsplit("::", 1)
        for it in find_items(src.tree):
            if it["k"] == "Impl" and norm(it["a"]["self_ty"]) == norm(ty) and "trait" not in it["a"]:
                for f in kids(it, kind="Fn"):
                    if f["a"]["ident"] == name:
                        cands.append((it, f))
            if it["k"] == "Trait" and it["a"]["ident"] == ty:
                for f in kids(it, kind="Fn"):
                    if f["a"]["ident"] == name:
                        cands.append((it, f))
    else:
        for it in find_items(src.tree):
            if it["k"] == "Fn" and it["a"]["ident"] == path:
                cands.append((None, it))
    if len(cands) != 1:
        raise Inconclusive(f"lost anchor: fn {path} in {src.rel}: {len(cands)} candidates")
    return cands[0]


def find_type(src, kind, name):
    k = {"struct": "StructDef", "enum": "EnumDef", "const": "Const"}[kind]
    cands = [it for it in find_items(src.tree) if it["k"] == k and it["a"].get("ident") == name]
    if len(cands) != 1:
        raise Inconclusive(f"lost anchor: {kind} {name} in {src.rel}: {len(cands)} candidates")
    return cands[0]


# ---------------------------------------------------------------------------------------------
# edits over a source range -> list of (text, origin) segments


class Edits:
    def __init__(self, src, s, e):
        self.src, self.s, self.e = src, s, e
        self.ed = []  # (s, e, order, text, origin)
        self._n = 0
        self.sealed = []  # ranges replaced wholesale (R43): edits inside them are void

    def seal(self, s, e, text, origin):
        """replace [s, e) wholesale: earlier and later edits that lie inside the range are dropped"""
        self.ed = [x for x in self.ed if not (s <= x[0] and x[1] <= e)]
        self.sealed.append((s, e))
        self._n += 1
        self.ed.append((s, e, (0, 0, self._n), text, origin))

    def replace(self, s, e, text, origin, prio=0, wraps=None):
        assert self.s <= s <= e <= self.e, (self.s, s, e, self.e)
        if any(a <= s and e <= b and (s, e) != (a, b) for a, b in self.sealed) or any((a, b) == (s, e) and s < e for a, b in self.sealed):
            return
        self._n += 1
        # order among insertions at the same offset: statement-level anchors (prio < 0) first; then the opening text of wrappers,
        # the one around the LARGER expression first (`wraps` = end offset of the wrapped expression); then everything else in order
        self.ed.append((s, e, (prio, -(wraps or 0), self._n), text, origin))

    def insert(self, at, text, origin, prio=0, wraps=None):
        """prio < 0: before other insertions at the same offset (statement-level anchors go before expression rewrites)"""
        self.replace(at, at, text, origin, prio, wraps)

    def delete(self, s, e, origin="drop"):
        self.replace(s, e, "", origin)

    def segments(self):
        ed = sorted(self.ed, key=lambda x: (x[0], x[1] != x[0], x[2]))
        out = []
        pos = self.s
        for s, e, _, text, origin in ed:
            if s < pos:
                raise Inconclusive(
                    f"unsupported construct: overlapping rewrites at {self.src.rel}:{self.src.line_of(s)} ({origin})"
                )
            if s > pos:
                out.append((self.src.bytes[pos:s].decode(), ("src", self.src.rel, pos)))
            if text:
                out.append((text, origin))
            pos = e
        if pos < self.e:
            out.append((self.src.bytes[pos : self.e].decode(), ("src", self.src.rel, pos)))
        return out


# ---------------------------------------------------------------------------------------------
# sidecar parsing

CLAUSE_RE = re.compile(r"^\[([^\]]+)\]\s*")


class Clause:
    """own: properties for which a failure of this clause is a violation;
    sup: properties whose proof rests on this clause (failure => inconclusive for them);
    ign: properties that need the clause only syntactically (decreases, safety: a failure does not
         affect their partial-correctness argument and is ignored for them)."""

    def __init__(self, kind, cid, own, sup, text, where, ign=()):
        self.kind, self.id, self.own, self.sup, self.text, self.where = kind, cid, own, sup, text, where
        self.ign = list(ign)

    def active(self, prop):
        return prop is None or prop in self.own or prop in self.sup or prop in self.ign


def parse_tag(tag, unit_props):
    """'id; own=C01,C02; sup=C03' -> (id, own, sup)"""
    parts = [p.strip() for p in tag.split(";")]
    cid = parts[0]
    own, sup, ign = None, [], []
    for p in parts[1:]:
        if p.startswith("own="):
            own = [x for x in p[4:].split(",") if x]
        elif p.startswith("sup="):
            sup = [x for x in p[4:].split(",") if x]
        elif p.startswith("ign="):
            ign = [x for x in p[4:].split(",") if x]
        else:
            raise Inconclusive(f"sidecar: bad clause tag [{tag}]")
    if own is None:
        own = [p for p in unit_props if p not in sup and p not in ign]
    return cid, own, sup, ign


class Unit:
    def __init__(self, path):
        self.path = path
        self.name = None
        self.props = []
        self.uses = []  # verbatim files
        self.typesubst = []
        self.items = []  # dicts
        self.forwards = []
        self.controls = []
        self.parse()

    def parse(self):
        lines = open(self.path).read().split("\n")
        # join continuation lines: a directive runs until the next line whose first non-blank char is '@'
        dirs = []
        cur = None
        raw_mode = False
        for ln, line in enumerate(lines, 1):
            st = line.strip()
            if raw_mode:
                if st == "@end":
                    raw_mode = False
                    cur = None
                else:
                    dirs[-1][2].append(line)
                continue
            if st.startswith("#") or (not st and cur is None):
                continue
            if st.startswith("@"):
                m = re.match(r"^@(\w+)\s*(.*)$", st)
                cur = [m.group(1), m.group(2), [], ln]
                dirs.append(cur)
                if m.group(1) in ("raw", "at", "around", "closurefn_body", "control"):
                    pass
                if m.group(1) in ("raw", "text"):
                    raw_mode = True
            elif cur is not None:
                cur[2].append(line)
        item = None
        loop = None
        sub = None  # closurefn / genfn block
        for name, arg, body, ln in dirs:
            where = f"{os.path.basename(self.path)}:{ln}"
            full = (arg + "\n" + "\n".join(body)).strip() if body else arg
            if name == "unit":
                self.name = arg.strip()
            elif name == "properties":
                self.props = arg.split()
            elif name == "use":
                self.uses.append(arg.strip())
            elif name == "typesubst":
                a, b = re.findall(r'"([^"]*)"', arg)
                self.typesubst.append((a, b))
            elif name == "forward":
                rel, rest = arg.split(None, 1)
                a, b = re.findall(r'"([^"]*)"', rest)
                self.forwards.append((rel, a, b, where))
            elif name == "trait":
                rel, nm = arg.split()[:2]
                item = {"kind": "trait", "rel": rel, "name": nm, "opts": arg.split()[2:], "where": where, "clauses": []}
                self.items.append(item)
                loop = None
            elif name in ("struct", "enum", "const"):
                rel, nm = arg.split()[:2]
                opts = arg.split()[2:]
                item = {"kind": name, "rel": rel, "name": nm, "opts": opts, "where": where, "clauses": []}
                self.items.append(item)
                loop = None
            elif name == "raw":
                tag = arg.strip()
                props = None
                m = re.match(r"^(\S+)\s+only=(\S+)$", tag)
                if m:
                    tag, props = m.group(1), m.group(2).split(",")
                self.items.append({"kind": "raw", "tag": tag, "text": "\n".join(body), "where": where, "only": props})
                item = None
            elif name == "fn":
                if '"' in arg:
                    rel = arg.split()[0]
                    nm = re.findall(r'"([^"]*)"', arg)[0]
                    opts = arg.split('"')[-1].split()
                else:
                    rel, nm = arg.split()[:2]
                    opts = arg.split()[2:]
                item = {
                    "kind": "fn", "rel": rel, "name": nm, "opts": opts, "where": where, "ret": None,
                    "clauses": [], "loops": {}, "ats": [], "arounds": [], "letty": {}, "sig": {},
                    "closurefns": {}, "safety": None, "callmap": [], "external": False,
                }
                self.items.append(item)
                loop = None
                sub = None
            elif name == "expr":
                # @expr <rel> "<fn path>" <selector> ; selectors: call=<method> arg=<k> | assign=<lhs text>
                rel = arg.split()[0]
                fnpath = re.findall(r'"([^"]*)"', arg)[0]
                kv = dict(x.split("=", 1) for x in arg.split('"')[-1].split())
                item = {"kind": "expr", "rel": rel, "name": fnpath, "sel": kv, "where": where, "clauses": [], "sigtext": None,
                        "impl": kv.get("impl"), "proof": "", "safety": None, "external": False, "callmap": []}
                self.items.append(item)
                loop = None
                sub = None
            elif name == "subst":
                a, b = re.findall(r'"([^"]*)"', full)
                item.setdefault("substs", []).append((a, b))
            elif name == "sigtext":
                item["sigtext"] = full
            elif name == "proof":
                item["proof"] = full
            elif name == "preproof":
                item["preproof"] = full
            elif name == "closurefn":
                # @closurefn <closure local name> captures <name: Type>, ...
                m = re.match(r"^(\w+)\s+captures\s+(.*)$", full, re.S)
                sub = {"name": m.group(1), "captures": m.group(2).strip(), "clauses": [], "invariants": [], "where": where}
                item["closurefns"][m.group(1)] = sub
            elif name == "genfn":
                # @genfn mapconcat <fn path> : `S.iter().map(<fn>).collect()` into a String -> generated loop function
                kind, target = arg.split()[:2]
                sub = {"name": target, "kind": kind, "captures": "", "clauses": [], "invariants": [], "where": where}
                item.setdefault("genfns", {})[target] = sub
            elif name == "endgenfn":
                sub = None
            elif name == "endclosurefn":
                sub = None
            elif name == "ret":
                item["ret"] = arg.strip()
            elif name == "rettype":
                item["rettype"] = full
            elif name == "reuse":
                # @reuse <unit> <item name> : the item of another unit with its whole contract; in THIS unit only its safety and
                # termination obligations are owned, every other clause merely supports them (failure => inconclusive here)
                ou = arg.split()[0]
                nm = re.findall(r'"([^"]*)"', arg)[0] if '"' in arg else arg.split()[1]
                other = Unit(os.path.join(os.path.dirname(self.path), ou + ".vspec"))
                cands = [i for i in other.items if i.get("name") == nm]
                if len(cands) != 1:
                    raise Inconclusive(f"sidecar {where}: @reuse {nm}: {len(cands)} items in unit {ou}")
                import copy
                it2 = copy.copy(cands[0])
                it2["opts"] = [o for o in it2.get("opts", []) if not o.startswith("only=")]

                def retag(c, own_kinds=("decreases",)):
                    if c.kind in own_kinds:
                        return Clause(c.kind, c.id, list(self.props), [], c.text, c.where)
                    return Clause(c.kind, c.id, [], list(self.props), c.text, c.where)
                if it2["kind"] == "fn":
                    it2["clauses"] = [retag(c) for c in it2["clauses"]]
                    it2["loops"] = {k: dict(v, clauses=[retag(c) for c in v["clauses"]]) for k, v in it2["loops"].items()}
                    it2["ats"] = [(a, retag(c)) for a, c in it2["ats"]]
                    it2["arounds"] = [(a, b, retag(c)) for a, b, c in it2["arounds"]]
                    if it2["safety"] is not None:
                        it2["safety"] = Clause("safety", it2["safety"].id, list(self.props), [], "", it2["safety"].where)
                self.items.append(it2)
                item = None
                loop = None
                sub = None
            elif name == "importfn":
                # @importfn <unit> <rel> <fn path> : contract proved in another unit, reused here as external_body
                ou, rel = arg.split()[:2]
                nm = re.findall(r'"([^"]*)"', arg)[0] if '"' in arg else arg.split()[2]
                other = Unit(os.path.join(os.path.dirname(self.path), ou + ".vspec"))
                src_items = [i for i in other.items if i["kind"] == "fn" and i["name"] == nm and i["rel"] == rel]
                if len(src_items) != 1:
                    raise Inconclusive(f"sidecar {where}: @importfn {nm} not found in unit {ou}")
                oi = src_items[0]
                item = dict(oi)
                item["external"] = True
                item["imported_from"] = ou
                item["loops"], item["ats"], item["arounds"], item["closurefns"], item["callmap"], item["letty"] = {}, [], [], {}, [], {}
                item["opts"] = [o for o in oi.get("opts", []) if o in ("inherent", "free") or o.startswith("as=") or o.startswith("selfty=")]
                item["clauses"] = []
                try:
                    _kf = {k["clause"] for k in json.load(open(os.path.join(VERIF, "known_findings.json"))).get("findings", [])}
                except Exception:
                    _kf = set()
                for c in oi["clauses"]:
                    if c.id in _kf:
                        continue  # an obligation that is a recorded known finding does NOT hold: it must not be assumed elsewhere
                    if c.kind in ("requires", "ensures"):
                        # within this unit the imported clause serves every property of this unit as an assumption
                        item["clauses"].append(Clause(c.kind, "import." + ou + "." + c.id, list(self.props), [], c.text, c.where))
                item["safety"] = None
                self.items.append(item)
                loop = None
                sub = None
            elif name == "external_body":
                item["external"] = True
            elif name == "sig":
                a, b = full.split(":", 1)
                item["sig"][a.strip()] = b.strip()
            elif name == "letty":
                a, b = full.split(":", 1)
                item["letty"][a.strip()] = b.strip()
            elif name == "letinit":
                # @letinit <var> => <expr>: the initialiser of `let <var> = ...` is dropped and replaced (external library calls
                # + iterator adapters that produce a value whose contract is assumed); reported as an extraction drop
                a, b = [x.strip() for x in full.split("=>", 1)]
                item.setdefault("letinit", {})[a] = b
            elif name == "iterloop":
                item.setdefault("iterloops", []).extend(full.split())
            elif name == "rlimit":
                item["rlimit"] = int(full.strip())
            elif name == "fmtarg":
                a, b, c = [x.strip() for x in full.split(":", 2)]
                item.setdefault("fmtargs", {})[norm(a)] = (b, c)
            elif name == "byval":
                item.setdefault("byval", []).extend(full.split())
            elif name == "callfn":
                a, b = [x.strip() for x in full.split("=>")]
                item.setdefault("callfns", []).append((a, b))
            elif name == "strvar":
                item.setdefault("strvars", []).extend(full.split())
            elif name == "binop":
                # @binop == => helper : every `A == B` of the function becomes helper(A, B)
                a, b = [x.strip() for x in full.split("=>")]
                item.setdefault("binops", []).append((a, b))
            elif name == "callmap":
                # @callmap .method() => func(&self_expr)   written as:  method => func
                a, b = [x.strip() for x in full.split("=>")]
                item["callmap"].append((a, b))
            elif name == "safety":
                m = CLAUSE_RE.match(full)
                cid, own, sup, ign = parse_tag(m.group(1), self.props)
                item["safety"] = Clause("safety", cid, own, sup, "", where, ign)
            elif name in ("requires", "ensures", "invariant", "decreases", "loop_ensures", "invariant_except_break"):
                m = CLAUSE_RE.match(full)
                if not m:
                    raise Inconclusive(f"sidecar {where}: clause needs [id]")
                cid, own, sup, ign = parse_tag(m.group(1), self.props)
                cl = Clause(name, cid, own, sup, full[m.end():].strip(), where, ign)
                if sub is not None:
                    (sub["clauses"] if name in ("requires", "ensures") else sub["invariants"]).append(cl)
                elif name in ("requires", "ensures") or (name == "decreases" and loop is None):
                    item["clauses"].append(cl)
                else:
                    if loop is None:
                        raise Inconclusive(f"sidecar {where}: {name} outside @loop")
                    loop["clauses"].append(cl)
            elif name == "loop":
                parts = arg.split()
                loop = {"index": int(parts[0]), "kind": parts[1] if len(parts) > 1 else None, "clauses": [],
                        "where": where, "attrs": parts[2:]}
                item["loops"][loop["index"]] = loop
                sub = None
            elif name == "at":
                # @at <anchor words...> [id; ...]  then text lines
                m = re.match(r"^(.*?)\s*\[([^\]]+)\]\s*$", arg)
                if not m:
                    raise Inconclusive(f"sidecar {where}: @at needs anchor and [id]")
                cid, own, sup, ign = parse_tag(m.group(2), self.props)
                item["ats"].append((m.group(1).strip(), Clause("at", cid, own, sup, "\n".join(body), where, ign)))
            elif name == "around":
                # @around stmt~"text" [id] ; body has 'before:' and 'after:' lines
                m = re.match(r'^stmt~"([^"]+)"\s*(?:n=(\d+)\s*)?\[([^\]]+)\]\s*$', arg)
                if not m:
                    raise Inconclusive(f"sidecar {where}: bad @around")
                cid, own, sup, ign = parse_tag(m.group(3), self.props)
                before = after = ""
                for b in body:
                    bs = b.strip()
                    if bs.startswith("before:"):
                        before = bs[7:].strip()
                    elif bs.startswith("after:"):
                        after = bs[6:].strip()
                item["arounds"].append((m.group(1), int(m.group(2)) if m.group(2) else None,
                                        Clause("around", cid, own, sup, (before, after), where, ign)))
            elif name == "control":
                # negative control: '@control <name> expect=<clause id>' body = sed-like replacement 'old => new'
                self.controls.append({"arg": arg, "body": body, "where": where})
            else:
                raise Inconclusive(f"sidecar {where}: unknown directive @{name}")


# ---------------------------------------------------------------------------------------------
# the generator


class Gen:
    def __init__(self, unit, prop, vacuity=False):
        self.unit, self.prop = unit, prop
        self.vacuity = vacuity
        self.vac = False  # currently emitting the `__vac` copy of a function
        self.segs = []  # (text, origin)
        self.rewrites = {}
        self.functions = []  # (path, rel, sha256, lines)
        self.clauses = {}  # id -> Clause (active ones)
        self.sites = {}  # id -> number of places the clause was spliced
        self.dropped = []
        self.fn_segs = []
        self._byteconsts = {}
        self._placeholders = {}
        self._consts = set()
        self.fn_ranges = []  # (byte_start, byte_end, item)

    def fired(self, rule):
        self.rewrites[rule] = self.rewrites.get(rule, 0) + 1

    def emit(self, text, origin):
        if text:
            self.segs.append((text, origin))

    def reg(self, cl):
        self.clauses[cl.id] = cl
        self.sites[cl.id] = self.sites.get(cl.id, 0) + 1

    def clause_text(self, cl, sep=","):
        self.reg(cl)
        return cl.text + sep

    # ---- type definitions -------------------------------------------------------------------
    def emit_type(self, it):
        src = Src.get(it["rel"])
        node = find_type(src, it["kind"], it["name"])
        ed = Edits(src, node["s"], node["e"])
        derive = [o[7:] for o in it["opts"] if o.startswith("derive=")]
        for n in walk(node):
            if n["k"] == "Attr":
                # drop every attribute (derives, serde, doc): Verus needs none of them
                ed.delete(n["s"], n["e"])
                if n["a"]["path"] != "doc":
                    self.dropped.append(f"{it['name']}: attribute {src.text(n)[:60]}")
            if n["k"] == "Type" and "text" in n["a"]:
                for a, b in self.unit.typesubst:
                    if norm(n["a"]["text"]) == norm(a):
                        ed.replace(n["s"], n["e"], b, ("rule", "R9-typesubst"))
                        self.fired("R9-typesubst")
            if n["k"] == "FieldDef" and "(" in n["a"].get("vis", ""):
                f0 = max([a["e"] for a in kids(n, kind="Attr")] + [n["s"]])
                mv = re.match(rb"\s*pub\s*\([^)]*\)", src.bytes[f0:f0 + 40])
                if mv:
                    ed.replace(f0, f0 + mv.end(), " pub", ("rule", "vis"))
            if n["k"] == "FieldDef" and "vis" not in n["a"] and n["p"]["k"] == "StructDef":
                # private fields: make visible to spec functions in the same file (no semantic effect)
                ed.insert(n["s"] if not kids(n, kind="Attr") else kids(n, kind="Attr")[-1]["e"], " pub ", ("rule", "vis"))
        first_tok = max([a["e"] for a in kids(node, kind="Attr")] + [node["s"]])
        mvis = re.match(rb"\s*pub\s*\([^)]*\)", src.bytes[first_tok:first_tok + 40])
        if mvis:
            ed.replace(first_tok, first_tok + mvis.end(), " pub", ("rule", "vis"))
        if derive:
            self.emit("#[derive(" + derive[0] + ")]\n", ("rule", "R13-derive"))
            self.fired("R13-derive")
        for seg in ed.segments():
            self.emit(*seg)
        self.emit("\n", ("glue",))
        self.functions.append((f"{it['kind']} {it['name']}", it["rel"], hashlib.sha256(src.bytes[node["s"]:node["e"]]).hexdigest(),
                               (src.line_of(node["s"]), src.line_of(node["e"]))))

    def emit_trait(self, it):
        """a trait definition, verbatim except for attributes/doc comments and type substitutions in signatures"""
        src = Src.get(it["rel"])
        cands = [t for t in find_items(src.tree) if t["k"] == "Trait" and t["a"]["ident"] == it["name"]]
        if len(cands) != 1:
            raise Inconclusive(f"lost anchor: trait {it['name']} in {it['rel']}")
        node = cands[0]
        ed = Edits(src, node["s"], node["e"])
        for n in walk(node):
            if n["k"] == "Attr":
                ed.delete(n["s"], n["e"])
            if n["k"] == "Type" and "text" in n["a"]:
                for a, b in self.unit.typesubst:
                    if norm(n["a"]["text"]) == norm(a):
                        ed.replace(n["s"], n["e"], b, ("rule", "typesubst"))
        mvis = re.search(rb"pub\s*\([^)]*\)", src.bytes[node["s"]:node["s"] + 40])
        if mvis:
            ed.replace(node["s"] + mvis.start(), node["s"] + mvis.end(), "pub", ("rule", "vis"))
        for seg in ed.segments():
            self.emit(*seg)
        self.emit("\n", ("glue",))
        self.functions.append((f"trait {it['name']}", it["rel"], hashlib.sha256(src.bytes[node["s"]:node["e"]]).hexdigest(),
                               (src.line_of(node["s"]), src.line_of(node["e"]))))

    # ---- a single expression of a function that is out of reach, wrapped as a function of its own -------
    def emit_expr(self, it):
        i0 = len(self.segs)
        src = Src.get(it["rel"])
        _, fn = find_fn(src, it["name"])
        body = kid(fn, "body")
        sel = it["sel"]
        hits = []
        for n in walk(body):
            if "call" in sel and n["k"] == "MethodCall" and n["a"]["method"] == sel["call"]:
                args = kids(n, "arg")
                k = int(sel.get("arg", 0))
                if k < len(args):
                    hits.append(args[k])
            if "call" in sel and n["k"] == "Call" and norm(n["a"].get("func", "")) == norm(sel["call"]):
                args = kids(n, "arg")
                k = int(sel.get("arg", 0))
                if k < len(args):
                    hits.append(args[k])
            if "tail" in sel and n is body:
                last = [c for c in body["c"] if c["r"] == "stmt"]
                if last and last[-1]["k"] == "StmtExpr" and not last[-1]["a"].get("semi"):
                    hits.append(kid(last[-1], "expr") if kid(last[-1], "expr") is not None else last[-1]["c"][0])
            if "assign" in sel and n["k"] == "Assign" and norm(src.text(kid(n, "left"))) == norm(sel["assign"]):
                hits.append(kid(n, "right"))
            if "let" in sel and n["k"] == "Local" and kid(n, "pat")["a"].get("ident") == sel["let"] and kid(n, "init") is not None:
                init = kid(n, "init")
                if sel.get("closure_body") and init["k"] == "Closure" and not kids(init, "input"):
                    init = kid(init, "body")
                hits.append(init)
        if len(hits) != 1:
            raise Inconclusive(f"lost anchor: @expr {sel} in {it['name']} ({src.rel}): {len(hits)} candidates")
        if "tail" in sel:
            # the tail expression stands for "the value the function returns": every explicit `return` is another result path and must
            # be known to the sidecar (`returns=<n>`, default 0), which describes them in the scope of the claim
            nret = sum(1 for n in walk(body) if n["k"] == "Return")
            if nret != int(sel.get("returns", 0)):
                raise Inconclusive(f"lost anchor: @expr tail of {it['name']} ({src.rel}): {nret} explicit `return`s, sidecar expects {sel.get('returns', 0)}")
        e = hits[0]
        self.functions.append((f"expression {sel} of {it['name']}", it["rel"], hashlib.sha256(src.bytes[e["s"]:e["e"]]).hexdigest(),
                               (src.line_of(e["s"]), src.line_of(e["e"]))))
        self.dropped.append(f"@expr {it['name']} {sel}: everything of the enclosing function except this one expression")
        if it["impl"]:
            self.emit(f"impl {it['impl']} {{\n", ("glue",))
        self.emit(f"// expression extracted from {src.rel}:{src.line_of(e['s'])} (enclosing fn {it['name']} is out of the verifier's reach)\n", ("glue",))
        sigtext = it["sigtext"]
        clauses = list(it["clauses"])
        if self.vac:
            sigtext = re.sub(r"\bfn\s+(\w+)", lambda m: "fn " + m.group(1) + "__vac", sigtext, count=1)
            clauses.append(Clause("ensures", "__vacuity." + it["name"] + str(it["sel"]), self.unit.props, [], "false", "vacuity"))
        self.emit(sigtext + "\n", ("glue",))
        for kind in ("requires", "ensures"):
            cs = [c for c in clauses if c.kind == kind and c.active(self.prop)]
            if cs:
                self.emit(f"    {kind}\n", ("glue",))
                for c in cs:
                    self.reg(c)
                    self.emit("        " + c.text + ",\n", ("clause", c.id))
        self.emit("{\n    " + (it.get("preproof") or "") + "\n    let __r = ", ("glue",))
        ed = Edits(src, e["s"], e["e"])
        pseudo = {"name": it["name"], "loops": {}, "opts": [f"{k}={it['sel'][k]}" for k in ("try", "slicefull") if it["sel"].get(k)], "closurefns": {}, "letty": {}, "callmap": it.get("callmap", []), "arounds": [], "ats": [],
                  "external": True, "genfns": {}, "binops": [], "strvars": it.get("strvars", [])}
        self.rewrite_body(pseudo, src, fn, e, ed)
        for a, b in it.get("substs", []):
            t = src.text(e)
            k = t.count(a)
            if k == 0:
                raise Inconclusive(f"lost anchor: @expr {it['name']}: `{a}` not in the expression")
            off = 0
            for _ in range(k):
                i = t.index(a, off)
                ed.replace(e["s"] + len(t[:i].encode()), e["s"] + len(t[:i].encode()) + len(a.encode()), b, ("rule", "subst"))
                off = i + len(a)
        for seg in ed.segments():
            self.emit(*seg)
        for text, origin in getattr(self, "_pending_global", []):
            self._late = getattr(self, "_late", []) + [(text, origin)]
        self._pending_global = []
        self.emit(";\n    " + it["proof"] + "\n    __r\n}\n", ("glue",))
        if it["impl"]:
            self.emit("}\n", ("glue",))
        for text, origin in getattr(self, "_late", []):
            self.emit(text, origin)
        self._late = []
        for text, origin in getattr(self, "_pending", []):
            self.emit(text, origin)
        self._pending = []
        self.fn_segs.append((i0, len(self.segs), it))

    # ---- functions --------------------------------------------------------------------------
    def emit_fn(self, it):
        i0 = len(self.segs)
        try:
            self._emit_fn(it)
        finally:
            self.fn_segs.append((i0, len(self.segs), it))

    def auto_consts(self, src, fn):
        """emit top-level `const`s of the same file that the function mentions (once each)"""
        body = src.text(fn)
        for c in find_items(src.tree):
            if c["k"] == "Const" and re.search(r"\b" + re.escape(c["a"]["ident"]) + r"\b", body):
                key = (src.rel, c["a"]["ident"])
                val = kid(c, "value")
                if val is not None and val["k"] == "Lit" and val["a"]["lit"].startswith('b"'):
                    # a `&[u8]` constant initialised with a byte-string literal (Verus has no const array->slice coercion):
                    # emitted as a function returning the same literal; uses `NAME` become `__const_NAME()` (see rewrite_body)
                    self._byteconsts[c["a"]["ident"]] = val["a"]["lit"]
                    if key not in self._consts:
                        self._consts.add(key)
                        lit = val["a"]["lit"]
                        raw = eval(lit)  # python and rust byte-string escapes coincide for \r \n \t \\ \xHH \0
                        seq = ", ".join(f"{b}u8" for b in raw)
                        self.emit(f"// const {c['a']['ident']}: &[u8] = {lit};  ({src.rel}:{src.line_of(c['s'])})\n#[verifier::external_body]\n"
                                  f"fn __const_{c['a']['ident']}() -> (r: &'static [u8]) ensures r@ =~= seq![{seq}] {{ {lit} }}\n", ("rule", "byte-const"))
                        self.fired("byte-const")
                    continue
                if key in self._consts:
                    continue
                self._consts.add(key)
                ed = Edits(src, c["s"], c["e"])
                for n in walk(c):
                    if n["k"] == "Attr":
                        ed.delete(n["s"], n["e"])
                for seg in ed.segments():
                    self.emit(*seg)
                self.emit("\n", ("glue",))
                self.fired("auto-const")

    def _emit_fn(self, it):
        src = Src.get(it["rel"])
        if src.pre_rules and ("R20", src.rel) not in self._consts:
            self._consts.add(("R20", src.rel))
            self.rewrites["R20-local-macro"] = self.rewrites.get("R20-local-macro", 0) + src.pre_rules
        try:
            impl, fn = find_fn(src, it["name"])
        except Inconclusive:
            if "optional" in it["opts"]:
                # `optional`: a helper that only a repaired tree has; without it its callers are checked as they stand
                self.absent = getattr(self, "absent", []) + [it["name"]]
                return
            raise
        if not self.vac and not it["external"]:
            self.auto_consts(src, fn)
        ed = Edits(src, fn["s"], fn["e"])
        sig = kid(fn, "sig")
        body = kid(fn, "body")
        self.functions.append((it["name"], it["rel"], hashlib.sha256(src.bytes[fn["s"]:fn["e"]]).hexdigest(),
                               (src.line_of(fn["s"]), src.line_of(fn["e"]))))
        for a in kids(fn, kind="Attr"):
            ed.delete(a["s"], a["e"])
        # restricted visibility (`pub(super)`, `pub(crate)`) is meaningless in the single generated file
        v0 = max([a["e"] for a in kids(fn, kind="Attr")] + [fn["s"]])
        mvis = re.search(rb"pub\s*\([^)]*\)", src.bytes[v0:sig["s"]])
        if mvis:
            ed.replace(v0 + mvis.start(), v0 + mvis.end(), "pub", ("rule", "vis"))
        # -- signature: named return, parameter type substitutions
        out = kid(sig, "output")
        as_name = [o[3:] for o in it["opts"] if o.startswith("as=")]
        free = "free" in it["opts"]
        if as_name and not self.vac:
            m = re.search(rb"\bfn\s+" + fn["a"]["ident"].encode() + rb"\b", src.bytes[sig["s"]:sig["e"]])
            ed.replace(sig["s"] + m.end() - len(fn["a"]["ident"]), sig["s"] + m.end(), as_name[0], ("rule", "rename"))
            if free and impl is not None and impl["a"].get("generics"):
                ed.insert(sig["s"] + m.end(), impl["a"]["generics"], ("rule", "rename"))
        elif as_name and self.vac:
            m = re.search(rb"\bfn\s+" + fn["a"]["ident"].encode() + rb"\b", src.bytes[sig["s"]:sig["e"]])
            ed.replace(sig["s"] + m.end() - len(fn["a"]["ident"]), sig["s"] + m.end(), as_name[0], ("rule", "rename"))
            if free and impl is not None and impl["a"].get("generics"):
                ed.insert(sig["s"] + m.end(), "__vac" + impl["a"]["generics"], ("rule", "rename"))
        if out is not None and not it.get("rettype"):
            for a, b in self.unit.typesubst:
                if norm(out["a"]["text"]) == norm(a):
                    it = dict(it)
                    it["rettype"] = b
        if it.get("rettype") and out is not None:
            ed.replace(out["s"], out["e"], it["rettype"], ("rule", "rettype"))
            out = dict(out)
            out["_replaced"] = True
        elif free and out is not None and norm(out["a"]["text"]) == "Self" and impl is not None:
            ed.replace(out["s"], out["e"], impl["a"]["self_ty"], ("rule", "rename"))
            out = dict(out)
            out["_replaced"] = True
        if it["ret"]:
            if out is None:
                raise Inconclusive(f"lost anchor: {it['name']} has no return type but sidecar names one")
            if out.get("_replaced"):
                ed.insert(out["s"], f"({it['ret']}: ", ("glue",))
                ed.replace(out["e"], out["e"], ")", ("glue",))
            else:
                ed.insert(out["s"], f"({it['ret']}: ", ("glue",))
                ed.insert(out["e"], ")", ("glue",))
        for arg in kids(sig, "input"):
            if arg["k"] == "FnArg":
                p = kid(arg, "pat")
                nm = p["a"].get("ident")
                if nm in it["sig"]:
                    t = kid(arg, "ty")
                    ed.replace(t["s"], t["e"], it["sig"][nm], ("rule", "sig-type"))
                    self.fired("sig-type")
                else:
                    t = kid(arg, "ty")
                    for a, b in self.unit.typesubst:
                        if norm(t["a"]["text"]) == norm(a):
                            ed.replace(t["s"], t["e"], b, ("rule", "R9-typesubst"))
        # -- contract
        spec = ""
        active = [c for c in it["clauses"] if c.active(self.prop)]
        if self.vac:
            # vacuity control: a renamed copy of the function with `ensures false` added. It calls the
            # ORIGINAL callees (whose contracts are unchanged), so it verifies only if the function's own
            # preconditions / assumed specs are contradictory or no path returns.
            active = active + [Clause("ensures", "__vacuity." + it["name"], self.unit.props, [], "false", "vacuity")]
            if not ("free" in it["opts"] and impl is not None and impl["a"].get("generics") and [o for o in it["opts"] if o.startswith("as=")]):
                m = re.search(rb"\bfn\s+" + fn["a"]["ident"].encode() + rb"\b", src.bytes[sig["s"]:sig["e"]])
                ed.insert(sig["s"] + m.end(), "__vac", ("glue",))
        # build with per-clause origins
        pieces = []
        for kind in ("requires", "ensures", "decreases"):
            cs = [c for c in active if c.kind == kind]
            if cs:
                pieces.append((f"\n    {kind}\n", ("glue",)))
                for c in cs:
                    self.reg(c)
                    pieces.append(("        " + c.text + ",\n", ("clause", c.id)))
        if it.get("rlimit") and not it["external"]:
            # solver budget for this function (Verus' default is 10); recorded per function in the evidence
            ed.insert(fn["s"], f"#[verifier::rlimit({it['rlimit']})]\n", ("glue",))
        if it["external"]:
            ed.insert(fn["s"], "#[verifier::external_body]\n", ("trusted", f"external_body {it['name']}"))
        if "no_decreases" in it["opts"]:
            # `while let Some(x) = iter.next()` loops: vstd's prophetic iterator measure cannot be discharged at the
            # loop end (DESIGN §2) => partial correctness only; termination of this function is NOT proved
            ed.insert(fn["s"], "#[verifier::exec_allows_no_decreases_clause]\n", ("trusted", f"termination unproved {it['name']}"))
        at = body["s"]
        for k, (t, o) in enumerate(pieces):
            ed.insert(at, t, o)
        if it["safety"] is not None and it["safety"].active(self.prop):
            self.reg(it["safety"])
        if it["external"]:
            ed.replace(body["s"], body["e"], "{ unimplemented!() }", ("trusted", f"external_body {it['name']}"))
        else:
            self.rewrite_body(it, src, fn, body, ed)
        # -- wrap in impl header
        if "free" in it["opts"]:
            impl = None
        if "inherent" in it["opts"] and impl is not None:
            impl = dict(impl)
            impl["_inherent"] = True
        open_hdr = it.get("_open", True) or self.vac
        close_hdr = it.get("_close", True) or self.vac
        if impl is not None and impl["k"] == "Impl" and open_hdr:
            hdr = src.text(impl["s"], int(impl["a"]["brace_s"]))
            # strip attributes/doc comments preceding 'impl'
            i = hdr.rfind("impl")
            j = re.search(r"(?m)^\s*(unsafe\s+)?impl\b", hdr)
            hdr = hdr[j.start():] if j else hdr[i:]
            for a, b in self.unit.typesubst:
                hdr = hdr.replace(a, b)
            if impl.get("_inherent"):
                # `inherent`: the method of a trait impl is emitted as an inherent method (trait dispatch is dropped)
                hdr = "impl " + impl["a"]["self_ty"]
            self.emit(hdr.strip() + " {\n", ("src-header", it["rel"], impl["s"]))
        # a provided method of a trait (`selfty=T`): emitted as an inherent method of the stand-in type T (R45)
        selfty = [o[7:] for o in it["opts"] if o.startswith("selfty=")]
        if impl is not None and impl["k"] == "Trait":
            if not selfty:
                raise Inconclusive(f"unsupported construct: {it['name']} is a provided trait method; sidecar needs selfty=<type>")
            self.emit("impl " + selfty[0] + " {\n", ("rule", "R45"))
            self.fired("R45")
        for text, origin in ed.segments():
            # expand anchor placeholders left by rewrite rules
            while True:
                hit = [(text.find(tok), tok) for tok in self._placeholders if tok in text]
                if not hit:
                    break
                at, tok = min(hit)
                self.emit(text[:at], origin)
                for t2, o2 in self._placeholders.pop(tok):
                    self.emit(t2, o2)
                text = text[at + len(tok):]
            self.emit(text, origin)
        if impl is not None and (impl["k"] == "Impl" and close_hdr or impl["k"] == "Trait"):
            self.emit("\n}\n", ("glue",))
        else:
            self.emit("\n", ("glue",))
        for text, origin in getattr(self, "_pending_global", []):
            self.emit(text, origin)
        self._pending_global = []
        # generated closure fns
        if not self.vac:
            for text, origin in getattr(self, "_pending", []):
                self.emit(text, origin)
        self._pending = []

    # ---- body rewriting ---------------------------------------------------------------------
    def rewrite_body(self, it, src, fn, body, ed):
        self._fmtargs = it.get("fmtargs", {})
        self._pending = getattr(self, "_pending", [])
        self._placeholders = {}
        T = src.text
        loops = []  # loop sites in source order: (node, kind)
        closure_locals = {}  # name -> Local node (for R4)

        # R48 (`mapunwrap=result|option`): `X.map(|p| E).unwrap_or(V)`  ->  `match X { Ok(p)/Some(p) => E, Err(_)/None => V }`
        mu = [o[10:] for o in it["opts"] if o.startswith("mapunwrap=")]
        if mu:
            okp, errp = ("Ok", "Err(_)") if mu[0] == "result" else ("Some", "None")
            for n in walk(body):
                if n["k"] == "MethodCall" and n["a"]["method"] == "unwrap_or" and len(kids(n, "arg")) == 1 and kid(n, "receiver")["k"] == "MethodCall" \
                        and kid(n, "receiver")["a"]["method"] == "map" and len(kids(kid(n, "receiver"), "arg")) == 1 and kids(kid(n, "receiver"), "arg")[0]["k"] == "Closure":
                    mp = kid(n, "receiver")
                    X = kid(mp, "receiver")
                    clo = kids(mp, "arg")[0]
                    pv = T(kids(clo, "input")[0])
                    E = kid(clo, "body")
                    Vv = kids(n, "arg")[0]
                    ed.replace(n["s"], X["s"], "(match ", ("rule", "R48"))
                    ed.replace(X["e"], E["s"], f" {{ {okp}({pv}) => ", ("rule", "R48"))
                    ed.replace(E["e"], Vv["s"], f", {errp} => ", ("rule", "R48"))
                    ed.replace(Vv["e"], n["e"], " })", ("rule", "R48"))
                    self.fired("R48")
        # R47: a byte-string literal `b"..."` in a body -> generated function returning the same literal (`ensures r@ =~= seq![..]`)
        for n in walk(body):
            if n["k"] == "Lit" and n["a"]["lit"].startswith('b"'):
                lit = n["a"]["lit"]
                raw = eval(lit)
                nm = "__bytes_lit_" + hashlib.sha256(lit.encode()).hexdigest()[:8]
                if nm not in self._consts:
                    self._consts.add(nm)
                    seq = ", ".join(f"{b}u8" for b in raw)
                    self._pending_global = getattr(self, "_pending_global", [])
                    self._pending_global.append((f"// R47: byte-string literal {lit}\n#[verifier::external_body]\nfn {nm}() -> (r: &'static [u8]) ensures r@ =~= seq![{seq}] {{ {lit} }}\n",
                                                 ("trusted", f"byte literal {lit}")))
                ed.replace(n["s"], n["e"], nm + "()", ("rule", "R47"))
                self.fired("R47")
        # R46: `&X[..]` (the full range of a byte slice)  ->  __slice_full(X)   (X verbatim)
        for n in walk(body):
            if n["k"] == "Reference" and kid(n, "expr")["k"] == "Index" and any(o.startswith("slicefull=") for o in it["opts"]):
                ix = kid(n, "expr")
                rg = kid(ix, "index")
                if rg["k"] == "Range" and kid(rg, "start") is None and kid(rg, "end") is None:
                    X = kid(ix, "base")
                    hname = ([o[10:] for o in it["opts"] if o.startswith("slicefull=")] or ["__slice_full"])[0]
                    ed.replace(n["s"], X["s"], (hname[:-1] + "(&") if hname.endswith("&") else (hname + "("), ("rule", "R46"), wraps=n["e"])
                    ed.replace(X["e"], n["e"], ")", ("rule", "R46"))
                    self.fired("R46")
        # R43: @letinit — initialiser replaced by a trusted helper expression
        for var, text in it.get("letinit", {}).items():
            hits = [n for n in walk(body) if n["k"] == "Local" and kid(n, "pat")["a"].get("ident") == var and kid(n, "init") is not None]
            if len(hits) != 1:
                raise Inconclusive(f"lost anchor: {it['name']}: {len(hits)} `let {var} = ..` statements, sidecar expects 1")
            init = kid(hits[0], "init")
            ed.seal(init["s"], init["e"], text, ("rule", "R43"))
            init["c"], init["k"] = [], "Sealed"  # no other rule looks inside
            self.dropped.append(f"{it['name']}: initialiser of `let {var}` ({init['e'] - init['s']} bytes: {norm(T(init))[:80]}…) replaced by `{text}`")
            self.fired("R43")

        for n in walk(body):
            k = n["k"]
            if k in ("While", "Loop"):
                loops.append((n, "while" if k == "While" else "loop"))
            elif k == "ForLoop":
                loops.append((n, "for"))
            elif k == "MethodCall" and n["a"]["method"] == "for_each":
                loops.append((n, "for_each"))
            elif k == "MethodCall" and n["a"]["method"] == "position" and kid(n, "receiver")["k"] == "MethodCall" \
                    and kid(n, "receiver")["a"]["method"] == "windows":
                loops.append((n, "windows_position"))
            elif k == "MethodCall" and n["a"]["method"] in ("position", "any", "all"):
                if n["a"]["method"] == "any" and kid(n, "receiver")["k"] == "MethodCall" and kid(n, "receiver")["a"]["method"] == "chars":
                    continue  # R6c
                loops.append((n, n["a"]["method"]))
            elif k == "MethodCall" and n["a"]["method"] == "join" and kid(n, "receiver")["k"] == "MethodCall" \
                    and kid(n, "receiver")["a"]["method"] == "collect" and kid(kid(n, "receiver"), "receiver")["k"] == "MethodCall" \
                    and kid(kid(n, "receiver"), "receiver")["a"]["method"] == "map" \
                    and kid(kid(kid(n, "receiver"), "receiver"), "receiver")["k"] == "MethodCall" \
                    and kid(kid(kid(n, "receiver"), "receiver"), "receiver")["a"]["method"] == "chars":
                loops.append((n, "chars_map_join"))
            elif k == "Local":
                init = kid(n, "init")
                p = kid(n, "pat")
                if init is not None and init["k"] == "Closure" and p["k"] == "PatIdent":
                    closure_locals[p["a"]["ident"]] = n
        loops.sort(key=lambda x: x[0]["s"])
        # shape check against sidecar
        for idx, spec in it["loops"].items():
            if idx >= len(loops):
                raise Inconclusive(f"lost anchor: {it['name']} loop {idx} not found ({len(loops)} loop sites)")
            if spec["kind"] and spec["kind"] != loops[idx][1]:
                raise Inconclusive(f"lost anchor: {it['name']} loop {idx} is {loops[idx][1]}, sidecar says {spec['kind']}")
        nl = [o[6:] for o in it["opts"] if o.startswith("loops=")]
        if nl and int(nl[0]) != len(loops):
            raise Inconclusive(f"lost anchor: {it['name']} has {len(loops)} loop sites, sidecar expects {nl[0]}")

        def loop_spec(idx, extra_inv=()):
            """text pieces for invariant/decreases of loop idx"""
            spec = it["loops"].get(idx)
            pieces = []
            cls = [c for c in (spec["clauses"] if spec else []) if c.active(self.prop)]
            for kind in ("invariant_except_break", "invariant", "loop_ensures", "decreases"):
                cs = [c for c in cls if c.kind == kind]
                if cs:
                    kw = {"loop_ensures": "ensures"}.get(kind, kind)
                    pieces.append((f"\n    {kw}\n", ("glue",)))
                    for c in cs:
                        self.reg(c)
                        pieces.append(("        " + c.text + ",\n", ("clause", c.id)))
            return pieces

        def attrs_for(idx):
            spec = it["loops"].get(idx)
            if spec and "no_decreases" in spec["attrs"]:
                return "#[verifier::exec_allows_no_decreases_clause]\n"
            return ""

        for idx, (n, kind) in enumerate(loops):
            pieces = loop_spec(idx)
            if kind in ("while", "loop"):
                b = kid(n, "body")
                for t, o in pieces:
                    ed.insert(b["s"], t, o)
            elif kind == "for":
                itx = kid(n, "iter")
                p = kid(n, "pat")
                b = kid(n, "body")
                # R1: for (i, x) in S.iter().enumerate()
                if (itx["k"] == "MethodCall" and itx["a"]["method"] == "enumerate"
                        and kid(itx, "receiver")["k"] == "MethodCall" and kid(itx, "receiver")["a"]["method"] == "iter"
                        and p["k"] == "PatTuple" and len(kids(p, "elem")) == 2):
                    S = T(kid(kid(itx, "receiver"), "receiver"))
                    i_pat, x_pat = [T(e) for e in kids(p, "elem")]
                    if any(x["k"] == "Continue" for x in walk(b)):
                        # Verus for-loops do not support `continue`: a `while` whose counter is advanced FIRST, so `continue` is safe
                        ed.replace(n["s"], b["s"], f"let mut __n{idx}: usize = 0;\n        while __n{idx} < {S}.len()", ("rule", "R1"))
                        for t, o in pieces:
                            ed.insert(b["s"], t, o)
                        ed.insert(b["s"] + 1, f" let {i_pat} = __n{idx}; __n{idx} += 1; let {x_pat} = &{S}[{i_pat}];", ("rule", "R1"))
                        loops[idx] = (n, "for")
                    else:
                        ed.replace(p["s"], p["e"], i_pat, ("rule", "R1"))
                        ed.replace(itx["s"], itx["e"], f"0..{S}.len()", ("rule", "R1"))
                        for t, o in pieces:
                            ed.insert(b["s"], t, o)
                        ed.insert(b["s"] + 1, f" let {x_pat} = &{S}[{i_pat}];", ("rule", "R1"))
                    self.fired("R1")
                elif itx["k"] == "MethodCall" and p["k"] == "PatTuple" and len(kids(p, "elem")) == 2 and (
                        (itx["a"]["method"] == "enumerate" and kid(itx, "receiver")["k"] == "MethodCall" and kid(itx, "receiver")["a"]["method"] == "chars")
                        or itx["a"]["method"] == "char_indices"):
                    # R30: index = char count (enumerate) or byte offset (char_indices); body must not `continue`
                    if any(x["k"] == "Continue" for x in walk(b)):
                        raise Inconclusive(f"unsupported construct: `continue` inside a chars() for-loop at {src.rel}:{src.line_of(n['s'])}")
                    byte_idx = itx["a"]["method"] == "char_indices"
                    S = T(kid(kid(itx, "receiver"), "receiver")) if not byte_idx else T(kid(itx, "receiver"))
                    i_pat, c_pat = [T(e) for e in kids(p, "elem")]
                    ed.replace(n["s"], b["s"], f"let mut __chars = {S}.chars(); let mut {i_pat}: usize = 0; let ghost mut __seen: Seq<char> = Seq::empty();\n"
                               f"        while let Some({c_pat}) = __chars.next()", ("rule", "R30"))
                    for t, o in pieces:
                        ed.insert(b["s"], t, o)
                    ed.insert(b["s"] + 1, f" let ghost __seen0 = __seen; proof {{ lemma_head_skip(); __seen = __seen.push({c_pat}); assert(__seen.drop_last() =~= __seen0); }} /*@@loop{idx}:begin@@*/",
                              ("rule", "R30"))
                    inc = f"__char_len_utf8({c_pat})" if byte_idx else "1"
                    ed.insert(b["e"] - 1, f" {i_pat} += {inc}; ", ("rule", "R30"))
                    loops[idx] = (n, "chars_index")
                    self.fired("R30")
                elif itx["k"] == "MethodCall" and itx["a"]["method"] == "chars" and not kids(itx, "arg") and p["k"] == "PatIdent":
                    # R30c: `for c in S.chars() { B }` -> `while let Some(c) = __chars.next() { B }` with ghost `__seen` (the chars taken so far);
                    # `break` keeps its meaning, `continue` is not supported
                    if any(x["k"] == "Continue" for x in walk(b)):
                        raise Inconclusive(f"unsupported construct: `continue` inside a chars() for-loop at {src.rel}:{src.line_of(n['s'])}")
                    S = T(kid(itx, "receiver"))
                    c_pat = T(p)
                    ed.replace(n["s"], b["s"], f"let mut __chars = {S}.chars(); let ghost mut __seen: Seq<char> = Seq::empty();\n"
                               f"        while let Some({c_pat}) = __chars.next()", ("rule", "R30"))
                    for t, o in pieces:
                        ed.insert(b["s"], t, o)
                    ed.insert(b["s"] + 1, f" let ghost __seen0 = __seen; proof {{ lemma_head_skip(); __seen = __seen.push({c_pat}); assert(__seen.drop_last() =~= __seen0); }} /*@@loop{idx}:begin@@*/",
                              ("rule", "R30"))
                    loops[idx] = (n, "chars_index")
                    self.fired("R30c")
                elif itx["k"] == "MethodCall" and itx["a"]["method"] == "lines" and not kids(itx, "arg") and "linesloop" in it["opts"]:
                    # R41l (`linesloop`): `for l in S.lines() { B }` -> `let mut __lines = __lines_iter(S); while let Some(l) = __lines.next() { B }`
                    S = T(kid(itx, "receiver"))
                    ed.replace(n["s"], p["s"], f"let mut __lines{idx} = __lines_iter({S});\n        while let Some(", ("rule", "R41"))
                    ed.replace(p["e"], b["s"], f") = __lines{idx}.next()", ("rule", "R41"))
                    for t, o in pieces:
                        ed.insert(b["s"], t, o)
                    loops[idx] = (n, "for")
                    self.fired("R41l")
                elif itx["k"] == "Path" and itx["a"]["path"] in it.get("iterloops", []):
                    # R41: `for X in IT { B }` over a user-defined iterator whose `next` is under contract -> `while let Some(X) = it.next()`
                    # (`break` / `continue` mean the same in the `while let` form)
                    ed.replace(n["s"], p["s"], f"let mut __iter{idx} = {T(itx)};\n        while let Some(", ("rule", "R41"))
                    ed.replace(p["e"], b["s"], f") = __iter{idx}.next()", ("rule", "R41"))
                    for t, o in pieces:
                        ed.insert(b["s"], t, o)
                    loops[idx] = (n, "for")
                    self.fired("R41")
                elif itx["k"] == "MethodCall" and itx["a"]["method"] == "by_ref" and kid(itx, "receiver")["k"] == "Path" \
                        and kid(itx, "receiver")["a"]["path"] in it.get("iterloops", []):
                    # R41': `for X in IT.by_ref() { B }` -> `while let Some(X) = IT.next() { B }` (IT stays usable after the loop)
                    ed.replace(n["s"], p["s"], "while let Some(", ("rule", "R41"))
                    ed.replace(p["e"], b["s"], f") = {T(kid(itx, 'receiver'))}.next()", ("rule", "R41"))
                    for t, o in pieces:
                        ed.insert(b["s"], t, o)
                    loops[idx] = (n, "for")
                    self.fired("R41")
                elif itx["k"] == "Range" or (itx["k"] == "Paren" and kid(itx, "expr")["k"] == "Range"):
                    for t, o in pieces:
                        ed.insert(b["s"], t, o)
                elif itx["k"] == "Reference" or itx["k"] in ("Path", "Field", "MethodCall"):
                    # R2': for x in &S / S.iter()  ->  index loop
                    e = itx
                    if e["k"] == "Reference":
                        S = T(kid(e, "expr"))
                    elif e["k"] == "MethodCall" and e["a"]["method"] == "iter":
                        S = T(kid(e, "receiver"))
                    elif e["k"] == "Path" and e["a"]["path"] in it.get("byval", []):
                        # R2v (`@byval V`): `for x in V` consuming a Vec whose items the body only reads -> index loop over references
                        # (a body that needs ownership no longer compiles: tool error, never a pass)
                        S = T(e)
                        self.fired("R2v")
                    else:
                        raise Inconclusive(f"unsupported construct: for-loop iterator at {src.rel}:{src.line_of(n['s'])}")
                    x_pat = T(p)
                    iv = f"__i{idx}"
                    own_continue = any(x["k"] == "Continue" and not any(a is not n and a["k"] in ("ForLoop", "While", "Loop") for a in ancestors_until(x, n)) for x in walk(b))
                    if own_continue:
                        # Verus for-loops do not support `continue`: a `while` whose counter is advanced FIRST (as in R1)
                        ed.replace(n["s"], b["s"], f"let mut __n{idx}: usize = 0;\n        while __n{idx} < {S}.len()", ("rule", "R2"))
                        for t, o in pieces:
                            ed.insert(b["s"], t, o)
                        ed.insert(b["s"] + 1, f" let {iv} = __n{idx}; __n{idx} += 1; let {x_pat} = &{S}[{iv}];", ("rule", "R2"))
                        loops[idx] = (n, "for")
                    else:
                        ed.replace(p["s"], p["e"], iv, ("rule", "R2"))
                        ed.replace(itx["s"], itx["e"], f"0..{S}.len()", ("rule", "R2"))
                        for t, o in pieces:
                            ed.insert(b["s"], t, o)
                        ed.insert(b["s"] + 1, f" let {x_pat} = &{S}[{iv}];", ("rule", "R2"))
                    self.fired("R2")
                else:
                    raise Inconclusive(f"unsupported construct: for-loop iterator at {src.rel}:{src.line_of(n['s'])}")
            elif kind == "for_each":
                self.rw_for_each(it, src, n, ed, pieces, idx)
            elif kind == "position":
                self.rw_position(it, src, fn, body, n, ed, pieces, idx)
            elif kind in ("any", "all"):
                self.rw_any(it, src, fn, body, n, ed, pieces, idx, kind)
            elif kind == "windows_position":
                # R35: `S.windows(N).position(|w| P)` anywhere -> inline search loop (P spliced verbatim)
                win = kid(n, "receiver")
                S = T(kid(win, "receiver"))
                N = T(kids(win, "arg")[0])
                clo = kids(n, "arg")[0]
                if clo["k"] != "Closure" or len(kids(clo, "input")) != 1:
                    raise Inconclusive(f"unsupported construct: windows().position() shape at {src.rel}:{src.line_of(n['s'])}")
                wv = T(kids(clo, "input")[0])
                P = kid(clo, "body")
                ed.replace(n["s"], P["s"], f"{{ let mut __i{idx}: usize = 0; let mut __r{idx}: Option<usize> = None;\n"
                           f"        while __r{idx}.is_none() && {S}.len() >= {N} && __i{idx} <= {S}.len() - {N}", ("rule", "R35"))
                for t, o in pieces:
                    ed.insert(P["s"], t, o)
                ed.insert(P["s"], f"{{ let {wv} = &{S}[__i{idx}..__i{idx} + {N}]; /*@@loop{idx}:begin@@*/ if ", ("rule", "R35"))
                ed.replace(P["e"], n["e"], f" {{ __r{idx} = Some(__i{idx}); }} else {{ __i{idx} += 1; }} }} /*@@loop{idx}:exit@@*/ __r{idx} }}", ("rule", "R35"))
                self.fired("R35")
            elif kind == "chars_map_join":
                coll = kid(n, "receiver")
                mp = kid(coll, "receiver")
                chs = kid(mp, "receiver")
                S = kid(chs, "receiver")
                clo = kids(mp, "arg")[0]
                sepn = kids(n, "arg")
                if clo["k"] != "Closure" or len(kids(clo, "input")) != 1 or len(sepn) != 1 or sepn[0]["a"].get("lit") != '""':
                    raise Inconclusive(f"unsupported construct: chars().map().collect().join() shape at {src.rel}:{src.line_of(n['s'])}")
                cvar = T(kids(clo, "input")[0])
                B = kid(clo, "body")
                coll["_handled"] = True
                ed.replace(n["s"], S["s"], "{ let mut __out = String::new(); let ghost mut __seen: Seq<char> = Seq::empty(); let mut __chars = ", ("rule", "R29"))
                ed.replace(S["e"], B["s"], f".chars(); while let Some({cvar}) = __chars.next()", ("rule", "R29"))
                for t, o in pieces:
                    ed.insert(B["s"], t, o)
                ed.insert(B["s"], f"{{ let ghost __seen0 = __seen; proof {{ lemma_head_skip(); __seen = __seen.push({cvar}); assert(__seen.drop_last() =~= __seen0); }} /*@@loop{idx}:begin@@*/ let ghost __o = __out@; let __piece: String = ", ("rule", "R29"))
                ed.replace(B["e"], n["e"], "; __out.push_str(__piece.as_str()); proof { assert(__out@ =~= __o + __piece@); } } __out }", ("rule", "R29"))
                self.fired("R29")

        # R23: `X.ok_or_else(|| anyhow!(..))?`   ->  match X { Some(v) => v, None => return Err(opaque) }
        # R24: `E.with_context(|| ..)?` / `E.context("..")?`  ->  match E { Ok(v) => v, Err(_) => return Err(opaque) }
        dead = []  # source ranges deleted by a rewrite: nothing inside them is rewritten again
        for n in walk(body):
            if n["k"] == "Try" and kid(n, "expr")["k"] == "MethodCall":
                mc = kid(n, "expr")
                E = kid(mc, "receiver")
                if mc["a"]["method"] == "ok_or_else" and len(kids(mc, "arg")) == 1 and kids(mc, "arg")[0]["k"] == "Closure":
                    ed.replace(n["s"], E["s"], "(match ", ("rule", "R23"))
                    ed.replace(E["e"], n["e"], " { Some(__v) => __v, None => return Err(anyhow::__opaque_error()) })", ("rule", "R23"))
                    dead.append((E["e"], n["e"]))
                    self.fired("R23")
                elif mc["a"]["method"] in ("with_context", "context") and len(kids(mc, "arg")) == 1:
                    ed.replace(n["s"], E["s"], "(match ", ("rule", "R24"))
                    ed.replace(E["e"], n["e"], " { Ok(__v) => __v, Err(_) => return Err(anyhow::__opaque_error()) })", ("rule", "R24"))
                    dead.append((E["e"], n["e"]))
                    self.fired("R24")
        # R31: `E?` in a function returning Option (sidecar option `try=option`)  ->  match E { Some(v) => v, None => return None }
        if "try=option" in it["opts"]:
            for n in walk(body):
                if n["k"] == "Try" and not any(a0 <= n["s"] and n["e"] <= b0 for a0, b0 in dead):
                    E = kid(n, "expr")
                    if E["k"] == "MethodCall" and E["a"]["method"] in ("ok_or_else", "with_context", "context", "map_err"):
                        continue
                    ed.insert(n["s"], "(match ", ("rule", "R31"), wraps=n["e"])
                    ed.replace(E["e"], n["e"], " { Some(__v) => __v, None => return None })", ("rule", "R31"))
                    self.fired("R31")

        if "try=result" in it["opts"]:
            for n in walk(body):
                if n["k"] == "Try" and not any(a0 <= n["s"] and n["e"] <= b0 for a0, b0 in dead):
                    E = kid(n, "expr")
                    if E["k"] == "MethodCall" and E["a"]["method"] in ("ok_or_else", "with_context", "context", "map_err"):
                        continue
                    ed.insert(n["s"], "(match ", ("rule", "R31"), wraps=n["e"])
                    ed.replace(E["e"], n["e"], " { Ok(__v) => __v, Err(__e) => return Err(__e) })", ("rule", "R31"))
                    self.fired("R31")

        # R8: error-message construction and logging are outside every property
        for n in walk(body):
            if any(a0 <= n["s"] and n["e"] <= b0 for a0, b0 in dead):
                continue
            if n["k"] == "Macro" and n["a"]["mac"] in ("anyhow::anyhow", "anyhow"):
                ed.replace(n["s"], n["e"], "anyhow::__opaque_error()", ("rule", "R8"))
                self.fired("R8")
            elif n["k"] == "StmtMacro" and n["a"]["mac"] in ("debug", "trace", "info", "warn", "tracing::debug", "tracing::trace"):
                ed.delete(n["s"], n["e"], ("rule", "R8"))
                self.fired("R8")
            elif n["k"] == "Macro" and n["a"]["mac"] in ("lossy_string", "crate::lossy_string"):
                # crate macro `lossy_string!(E)` == String::from_utf8_lossy(E).to_string()
                arg = kids(n, "macarg")
                if len(arg) != 1:
                    raise Inconclusive("unsupported construct: lossy_string! shape")
                ed.replace(n["s"], arg[0]["s"], "__lossy(", ("rule", "R8-lossy"))
                ed.replace(arg[0]["e"], n["e"], ")", ("rule", "R8-lossy"))
                self.fired("R8-lossy")
            elif n["k"] == "MethodCall" and n["a"]["method"] in ("into", "to_string", "into_owned") and kid(n, "receiver")["k"] == "Call" \
                    and norm(kid(n, "receiver")["a"]["func"]) == "String::from_utf8_lossy" and len(kids(kid(n, "receiver"), "arg")) == 1:
                arg0 = kids(kid(n, "receiver"), "arg")[0]
                ed.replace(n["s"], arg0["s"], "__lossy(", ("rule", "R8-lossy"))
                ed.replace(arg0["e"], n["e"], ")", ("rule", "R8-lossy"))
                self.fired("R8-lossy")
            elif n["k"] == "Macro" and n["a"]["mac"] in ("anyhow::bail", "bail"):
                ed.replace(n["s"], n["e"], "return Err(anyhow::__opaque_error())", ("rule", "R8"))
                self.fired("R8")
            elif n["k"] == "StmtMacro" and n["a"]["mac"] in ("anyhow::bail", "bail"):
                ed.replace(n["s"], n["e"], "return Err(anyhow::__opaque_error());", ("rule", "R8"))
                self.fired("R8")

        # R21: `let x: String = V.into_iter().collect();`  ->  __string_from_chars(V)
        for n in walk(body):
            if n["k"] == "Local" and kid(n, "pat")["k"] == "PatType" and kid(n, "init") is not None:
                ty = kid(kid(n, "pat"), "ty")
                init = kid(n, "init")
                if norm(src.text(ty)) == "String" and init["k"] == "MethodCall" and init["a"]["method"] == "collect" \
                        and kid(init, "receiver")["k"] == "MethodCall" and kid(init, "receiver")["a"]["method"] == "into_iter":
                    V = kid(kid(init, "receiver"), "receiver")
                    ed.replace(init["s"], V["s"], "__string_from_chars(", ("rule", "R21"))
                    ed.replace(V["e"], init["e"], ")", ("rule", "R21"))
                    init["_handled"] = True
                    self.fired("R21")
        # R22: `C.encode_utf8(&mut B).as_bytes()`  ->  __encode_utf8_vec(C)
        for n in walk(body):
            if n["k"] == "MethodCall" and n["a"]["method"] == "as_bytes" and kid(n, "receiver")["k"] == "MethodCall" \
                    and kid(n, "receiver")["a"]["method"] == "encode_utf8":
                C = kid(kid(n, "receiver"), "receiver")
                Bf = kids(kid(n, "receiver"), "arg")[0]
                ed.replace(n["s"], C["s"], "__encode_utf8_bytes(", ("rule", "R22"))
                ed.replace(C["e"], Bf["s"], ", ", ("rule", "R22"))
                ed.replace(Bf["e"], n["e"], ")", ("rule", "R22"))
                self.fired("R22")

        # R8': format! whose value IS the result: replaced by a generated external_body helper whose `ensures`
        # is derived mechanically from the format literal ({} / {name} of str-like args, {:02x} of u8)
        for n in walk(body):
            if any(a0 <= n["s"] and n["e"] <= b0 for a0, b0 in dead):
                continue
            if n["k"] == "Macro" and n["a"]["mac"] == "format":
                args = kids(n, "macarg")
                if not args or args[0]["k"] != "Lit" or not args[0]["a"]["lit"].startswith('"'):
                    raise Inconclusive(f"unsupported construct: format! without a plain string literal at {src.rel}:{src.line_of(n['s'])}")
                name, call_args = self.format_helper(args[0]["a"]["lit"], [T(a) for a in args[1:]], src, n)
                if args[1:] and call_args == ["&" + T(a) for a in args[1:]]:
                    # positional str arguments in order: only the glue between the argument expressions is replaced, so that
                    # other rules still apply inside them
                    ed.replace(n["s"], args[1]["s"], f"{name}(&", ("rule", "R8'"))
                    for a, b in zip(args[1:], args[2:]):
                        ed.replace(a["e"], b["s"], ", &", ("rule", "R8'"))
                    ed.replace(args[-1]["e"], n["e"], ")", ("rule", "R8'"))
                else:
                    ed.replace(n["s"], n["e"], f"{name}({', '.join(call_args)})", ("rule", "R8'"))
                self.fired("R8'")
            elif n["k"] == "Macro" and n["a"]["mac"] in ("formatln", "crate::formatln"):
                # scrut's own `formatln!(LIT, args)` = format!("{}\n", format!(LIT, args)); `formatln!(E)` = format!("{}\n", E) (src/newline.rs)
                args = kids(n, "macarg")
                if args and args[0]["k"] == "Lit" and args[0]["a"]["lit"].startswith('"') and len(args) > 1:
                    lit, rest = args[0]["a"]["lit"][:-1] + '\\n"', [T(a) for a in args[1:]]
                elif len(args) == 1:
                    lit, rest = '"{}\\n"', [T(args[0])]
                else:
                    raise Inconclusive(f"unsupported construct: formatln! shape at {src.rel}:{src.line_of(n['s'])}")
                name, call_args = self.format_helper(lit, [re.sub(r"^&\s*", "", a) for a in rest], src, n)
                anodes = args[1:] if len(args) > 1 else args
                if call_args == ["&" + re.sub(r"^&\s*", "", T(a)) for a in anodes]:
                    # glue only (see format!): a leading `&` of an argument is kept inside the argument, the helper takes `&(..)`
                    amp = lambda a: "" if T(a).startswith("&") else "&"
                    ed.replace(n["s"], anodes[0]["s"], f"{name}(" + amp(anodes[0]), ("rule", "R8'"))
                    for a, b in zip(anodes, anodes[1:]):
                        ed.replace(a["e"], b["s"], ", " + amp(b), ("rule", "R8'"))
                    ed.replace(anodes[-1]["e"], n["e"], ")", ("rule", "R8'"))
                else:
                    ed.replace(n["s"], n["e"], f"{name}({', '.join(call_args)})", ("rule", "R8'"))
                self.fired("R8'")

        # R16: `E.map_err(F)?`  ->  `(match E { Ok(v) => v, Err(e) => return Err(F(e)) })`   (F a path)
        for n in walk(body):
            if n["k"] == "Try" and kid(n, "expr")["k"] == "MethodCall" and kid(n, "expr")["a"]["method"] == "map_err":
                mc = kid(n, "expr")
                F = kids(mc, "arg")[0]
                E = kid(mc, "receiver")
                if F["k"] != "Path":
                    raise Inconclusive(f"unsupported construct: map_err argument at {src.rel}:{src.line_of(n['s'])}")
                ed.replace(n["s"], E["s"], "(match ", ("rule", "R16"))
                ed.replace(E["e"], F["s"], " { Ok(__v) => __v, Err(__e) => return Err(", ("rule", "R16"))
                ed.replace(F["e"], n["e"], "(__e)) })", ("rule", "R16"))
                self.fired("R16")

        # R17: Option combinators taking a closure, desugared to `match` per their std definitions
        #      (closure body and receiver spliced verbatim)
        for n in walk(body):
            if n["k"] != "MethodCall" or n["a"]["method"] not in ("is_some_and", "is_none_or", "filter", "map", "map_or", "and_then"):
                continue
            m = n["a"]["method"]
            args = kids(n, "arg")
            O = kid(n, "receiver")
            if m == "map" and any(o.startswith("mapunwrap=") for o in it["opts"]) and n["p"]["k"] == "MethodCall" and n["p"]["a"]["method"] == "unwrap_or":
                continue  # R48
            if m == "filter" and O["k"] == "MethodCall" and O["a"]["method"] in ("iter", "into_iter", "skip", "enumerate", "chars", "lines"):
                continue  # iterator filter, not Option::filter
            if O["k"] in ("Paren", "Range") or (O["k"] == "MethodCall" and O["a"]["method"] in ("iter", "into_iter", "skip", "enumerate", "chars", "lines", "windows", "captures", "position")):
                continue
            clo = args[-1] if args else None
            if clo is None or clo["k"] != "Closure" or len(kids(clo, "input")) != 1:
                continue
            p = kids(clo, "input")[0]
            B = kid(clo, "body")
            if m in ("is_some_and", "is_none_or", "map", "and_then") and len(args) == 1:
                some, none = {"is_some_and": ("", "false"), "is_none_or": ("", "true"),
                              "map": ("Some(", "None"), "and_then": ("", "None")}[m]
                ed.replace(n["s"], O["s"], "(match ", ("rule", "R17"))
                ed.replace(O["e"], p["s"], " { Some(", ("rule", "R17"))
                ed.replace(p["e"], B["s"], f") => {some}", ("rule", "R17"))
                ed.replace(B["e"], n["e"], (")" if some else "") + f", None => {none} }})", ("rule", "R17"))
                self.fired("R17")
            elif m == "filter" and len(args) == 1:
                ed.replace(n["s"], O["s"], "(match ", ("rule", "R17"))
                ed.replace(O["e"], p["s"], " { Some(__x) => if { let ", ("rule", "R17"))
                ed.replace(p["e"], B["s"], " = &__x; ", ("rule", "R17"))
                ed.replace(B["e"], n["e"], " } { Some(__x) } else { None }, None => None })", ("rule", "R17"))
                self.fired("R17")
            elif m == "map_or" and len(args) == 2:
                D = args[0]
                dflt = T(D)
                ed.replace(n["s"], O["s"], "(match ", ("rule", "R17"))
                ed.replace(O["e"], p["s"], " { Some(", ("rule", "R17"))
                ed.replace(p["e"], B["s"], ") => ", ("rule", "R17"))
                ed.replace(B["e"], n["e"], f", None => {dflt} }})", ("rule", "R17"))
                self.fired("R17")

        # byte-string constants (see auto_consts)
        for n in walk(body):
            if n["k"] == "Path" and n["a"]["path"] in self._byteconsts and not any(a0 <= n["s"] and n["e"] <= b0 for a0, b0 in dead):
                ed.replace(n["s"], n["e"], f"__const_{n['a']['path']}()", ("rule", "byte-const"))
        # R18: Cow constructors (Cow<[u8]> is modelled as Vec<u8>)
        for n in walk(body):
            if n["k"] == "Call" and norm(n["a"]["func"]) in ("Cow::from", "Cow::Borrowed", "Cow::Owned") and len(kids(n, "arg")) == 1:
                f = kid(n, "func")
                ed.replace(f["s"], f["e"], "__cow_owned" if norm(n["a"]["func"]) == "Cow::Owned" else "__cow_borrowed", ("rule", "R18"))
                self.fired("R18")
        # R36: `[A, B].concat().into()`  ->  __vec_concat2(A, B)
        for n in walk(body):
            if n["k"] == "MethodCall" and n["a"]["method"] == "into" and kid(n, "receiver")["k"] == "MethodCall" \
                    and kid(n, "receiver")["a"]["method"] == "concat" and kid(kid(n, "receiver"), "receiver")["k"] == "Array" \
                    and len(kids(kid(kid(n, "receiver"), "receiver"), "elem")) == 2:
                arr = kid(kid(n, "receiver"), "receiver")
                A, B = kids(arr, "elem")
                ed.replace(n["s"], A["s"], "__vec_concat2(", ("rule", "R36"))
                ed.replace(A["e"], B["s"], ", ", ("rule", "R36"))
                ed.replace(B["e"], n["e"], ")", ("rule", "R36"))
                n["_handled_into"] = True
                self.fired("R36")
        # R28: str predicates that are generic over `Pattern` (no assume_specification possible): with a char or
        #      string LITERAL argument they become calls of prelude helpers with exact specs over Seq<char>
        for n in walk(body):
            if n["k"] == "MethodCall" and n["a"]["method"] in ("starts_with", "ends_with", "strip_prefix", "strip_suffix", "contains") \
                    and len(kids(n, "arg")) == 1 and (kids(n, "arg")[0]["k"] == "Lit"
                        or (kids(n, "arg")[0]["k"] == "Path" and kids(n, "arg")[0]["a"]["path"] in it.get("strvars", []))
                        or (kids(n, "arg")[0]["k"] == "Reference" and kid(kids(n, "arg")[0], "expr")["k"] == "Path"
                            and kid(kids(n, "arg")[0], "expr")["a"]["path"] in it.get("strvars", []))):
                if any(a0 <= n["s"] and n["e"] <= b0 for a0, b0 in dead):
                    continue
                lit = kids(n, "arg")[0]
                if lit["k"] in ("Path", "Reference"):
                    kind = "str"
                else:
                    kind = "char" if lit["a"]["lit"].startswith("'") else ("str" if lit["a"]["lit"].startswith('"') else None)
                if kind is None:
                    continue
                X = kid(n, "receiver")
                ed.replace(n["s"], X["s"], f"__str_{n['a']['method']}_{kind}(&", ("rule", "R28"))
                ed.replace(X["e"], lit["s"], ", ", ("rule", "R28"))
                ed.replace(lit["e"], n["e"], ")", ("rule", "R28"))
                self.fired("R28")

        # R6c: `S.chars().any(|c| P)` anywhere (P captures nothing) -> generated function with an early-return loop
        for n in walk(body):
            if n["k"] == "MethodCall" and n["a"]["method"] == "any" and kid(n, "receiver")["k"] == "MethodCall" \
                    and kid(n, "receiver")["a"]["method"] == "chars" and len(kids(n, "arg")) == 1 and kids(n, "arg")[0]["k"] == "Closure":
                gens = [g for g in it.get("genfns", {}).values() if g["kind"] == "charsany"]
                if not gens:
                    raise Inconclusive(f"unsupported construct: chars().any() without @genfn charsany at {src.rel}:{src.line_of(n['s'])}")
                spec = gens[0]
                clo = kids(n, "arg")[0]
                cvar = T(kids(clo, "input")[0])
                P = kid(clo, "body")
                S = kid(kid(n, "receiver"), "receiver")
                gname = "__chars_any_" + spec["name"]
                ed.replace(n["s"], S["s"], gname + "(&", ("rule", "R6c"))
                ed.replace(S["e"], n["e"], ")", ("rule", "R6c"))
                dead.append((S["e"], n["e"]))
                n["_handled"] = True
                self.fired("R6c")
                pend = [(f"// R6c: generated for `.chars().any(|{cvar}| ..)` ({src.rel}:{src.line_of(n['s'])}); predicate spliced verbatim; termination unproved\n"
                         f"#[verifier::exec_allows_no_decreases_clause]\nfn {gname}(__s: &str) -> (r: bool)\n", ("trusted", "termination unproved " + gname))]
                for kind in ("requires", "ensures"):
                    cs = [c for c in spec["clauses"] if c.kind == kind and c.active(self.prop)]
                    if cs:
                        pend.append((f"    {kind}\n", ("glue",)))
                        for c in cs:
                            self.reg(c)
                            pend.append(("        " + c.text + ",\n", ("clause", c.id)))
                pend.append((f"{{\n    let mut __chars = __s.chars();\n    let ghost mut __seen: Seq<char> = Seq::empty();\n    while let Some({cvar}) = __chars.next()\n", ("rule", "R6c")))
                cs = [c for c in spec["invariants"] if c.active(self.prop)]
                if cs:
                    pend.append(("        invariant\n", ("glue",)))
                    for c in cs:
                        self.reg(c)
                        pend.append(("            " + c.text + ",\n", ("clause", c.id)))
                pend.append((f"        ensures __chars.remaining().len() == 0,\n    {{\n        proof {{ lemma_head_skip(); __seen = __seen.push({cvar}); }}\n        if ", ("rule", "R6c")))
                ptxt = T(P)
                for meth, func in it["callmap"]:
                    if "[" not in meth:
                        ptxt = re.sub(r"\b(\w+)\." + re.escape(meth) + r"\(\)", func + r"(\1)", ptxt)
                pend.append((ptxt, ("src", src.rel, P["s"])))
                pend.append((f" {{ proof {{ assert(__s@[__seen.len() - 1] == {cvar}); }} return true; }}\n    }}\n    proof {{ assert(__seen =~= __s@); }}\n    false\n}}\n", ("rule", "R6c")))
                self._pending.extend(pend)

        # R27: `&S[A..B]`, `&S[A..]`, `S[A..B]` on a variable declared `@strvar` -> __str_slice(S, A, B): the helper's
        #      precondition is exactly Rust's panic condition (range order, both ends on char boundaries)
        for n in walk(body):
            if n["k"] == "Index" and kid(n, "base")["k"] == "Path" and kid(n, "base")["a"]["path"] in it.get("strvars", []) \
                    and kid(n, "index")["k"] == "Range" and kid(n, "index")["a"]["limits"] == "..":
                if any(a0 <= n["s"] and n["e"] <= b0 for a0, b0 in dead):
                    continue
                S = kid(n, "base")["a"]["path"]
                rng = kid(n, "index")
                A, B = kid(rng, "start"), kid(rng, "end")
                outer = n["p"] if n["p"]["k"] == "Reference" else n
                if A is not None and B is not None:
                    ed.replace(outer["s"], A["s"], f"__str_slice({S}, ", ("rule", "R27"))
                    ed.replace(A["e"], B["s"], ", ", ("rule", "R27"))
                    ed.replace(B["e"], outer["e"], ")", ("rule", "R27"))
                elif A is not None:
                    ed.replace(outer["s"], A["s"], f"__str_slice_from({S}, ", ("rule", "R27"))
                    ed.replace(A["e"], outer["e"], ")", ("rule", "R27"))
                elif B is not None:
                    # `&S[..B]` is `&S[0..B]`
                    ed.replace(outer["s"], B["s"], f"__str_slice({S}, 0, ", ("rule", "R27"))
                    ed.replace(B["e"], outer["e"], ")", ("rule", "R27"))
                else:
                    raise Inconclusive(f"unsupported construct: str range at {src.rel}:{src.line_of(n['s'])}")
                self.fired("R27")

        # R37: `X.to_owned().unwrap_or_default()` / `X.clone().unwrap_or_default()`  ->  __clone_or_default(&X)
        # R38: `V.join("\n")` on a Vec<String>  ->  __join_newline(&V)
        for n in walk(body):
            if n["k"] != "MethodCall" or any(a0 <= n["s"] and n["e"] <= b0 for a0, b0 in dead):
                continue
            if n["a"]["method"] == "unwrap_or_default" and not kids(n, "arg") and kid(n, "receiver")["k"] == "MethodCall" \
                    and kid(n, "receiver")["a"]["method"] in ("to_owned", "clone") and not kids(kid(n, "receiver"), "arg"):
                X = kid(kid(n, "receiver"), "receiver")
                ed.replace(n["s"], X["s"], "__clone_or_default(&", ("rule", "R37"))
                ed.replace(X["e"], n["e"], ")", ("rule", "R37"))
                self.fired("R37")
            elif n["a"]["method"] == "join" and len(kids(n, "arg")) == 1 and kids(n, "arg")[0]["a"].get("lit") == '"\\n"':
                X = kid(n, "receiver")
                ed.replace(n["s"], X["s"], "__join_newline(&", ("rule", "R38"))
                ed.replace(X["e"], n["e"], ")", ("rule", "R38"))
                self.fired("R38")

        # R39: `..Default::default()` in a struct literal of type T  ->  `..__derived_default_T()` (prelude shim: derived Default)
        for n in walk(body):
            if n["k"] == "Struct":
                rest = kid(n, "rest")
                if rest is not None and rest["k"] == "Call" and norm(rest["a"]["func"]) == "Default::default":
                    ty = n["a"]["path"]
                    if ty == "Self":
                        ty = it["name"].split("::")[0]
                    ed.replace(rest["s"], rest["e"], f"__derived_default_{ty}()", ("rule", "R39"))
                    self.fired("R39")
        # R40: `S.lines().collect::<Vec<_>>()` -> __lines_vec(S);  `" ".repeat(N)` -> __spaces(N)
        for n in walk(body):
            if n["k"] == "MethodCall" and n["a"]["method"] == "collect" and kid(n, "receiver")["k"] == "MethodCall" \
                    and kid(n, "receiver")["a"]["method"] == "lines" and not kids(kid(n, "receiver"), "arg"):
                X = kid(kid(n, "receiver"), "receiver")
                ed.replace(n["s"], X["s"], "__lines_vec(", ("rule", "R40"))
                ed.replace(X["e"], n["e"], ")", ("rule", "R40"))
                n["_handled"] = True
                self.fired("R40")
            elif n["k"] == "MethodCall" and n["a"]["method"] == "collect" and kid(n, "receiver")["k"] == "MethodCall" \
                    and kid(n, "receiver")["a"]["method"] == "chars" and not kids(kid(n, "receiver"), "arg") \
                    and norm(n["a"].get("turbofish") or "") == "::<Vec<_>>":
                # R40c: `S.chars().collect::<Vec<_>>()` -> __chars_vec(S)  (r@ == S@)
                X = kid(kid(n, "receiver"), "receiver")
                ed.replace(n["s"], X["s"], "__chars_vec(", ("rule", "R40c"))
                ed.replace(X["e"], n["e"], ")", ("rule", "R40c"))
                n["_handled"] = True
                self.fired("R40c")
            elif n["k"] == "MethodCall" and n["a"]["method"] == "contains" and kid(n, "receiver")["k"] == "Array" and len(kids(n, "arg")) == 1 \
                    and kids(n, "arg")[0]["k"] == "Reference" and kids(kid(n, "receiver"), None) \
                    and all(c["k"] == "Lit" and re.match(r"^('([^'\\]|\\.)'|\d+)$", c["a"]["lit"]) for c in kids(kid(n, "receiver"), None)):
                # R49: `[l1, l2, ..].contains(&E)` over char / integer literals, E a place expression (evaluated once per comparison,
                # no call inside) -> (E == l1 || E == l2 || ..)
                E = kids(kids(n, "arg")[0], None)[0]
                if any(x["k"] in ("Call", "MethodCall", "Macro") for x in walk(E)):
                    raise Inconclusive(f"unsupported construct: [..].contains(&<call>) at {src.rel}:{src.line_of(n['s'])}")
                et = src.text(E)
                ed.replace(n["s"], n["e"], "(" + " || ".join(f"{et} == {c['a']['lit']}" for c in kids(kid(n, "receiver"), None)) + ")", ("rule", "R49"))
                self.fired("R49")
            elif n["k"] == "MethodCall" and n["a"]["method"] == "repeat" and kid(n, "receiver")["k"] == "Lit" \
                    and kid(n, "receiver")["a"]["lit"] == '" "' and len(kids(n, "arg")) == 1:
                A = kids(n, "arg")[0]
                ed.replace(n["s"], A["s"], "__spaces(", ("rule", "R40"))
                ed.replace(A["e"], n["e"], ")", ("rule", "R40"))
                self.fired("R40")
            elif n["k"] == "MethodCall" and n["a"]["method"] == "repeat" and kid(n, "receiver")["k"] == "Lit" \
                    and re.match(r'^"([^"\\]|\\.)"$', kid(n, "receiver")["a"]["lit"]) and len(kids(n, "arg")) == 1:
                # a one-character literal repeated: `"`".repeat(N)` -> __repeat_char('`', N)
                A = kids(n, "arg")[0]
                ch = kid(n, "receiver")["a"]["lit"][1:-1]
                ed.replace(n["s"], A["s"], "__repeat_char('" + ("\\'" if ch == "'" else ch) + "', ", ("rule", "R40"))
                ed.replace(A["e"], n["e"], ")", ("rule", "R40"))
                self.fired("R40")

        # @callfn <path>#k => helper : the k-th call of a free function / associated function is redirected to a prelude shim
        for spec_, helper in it.get("callfns", []):
            pth, _, k = spec_.partition("#")
            calls = [n for n in walk(body) if n["k"] == "Call" and norm(n["a"]["func"]) == norm(pth)]
            k = int(k or 0)
            if k >= len(calls):
                raise Inconclusive(f"lost anchor: {it['name']}: call #{k} of {pth} not found ({len(calls)} calls)")
            f = kid(calls[k], "func")
            ed.replace(f["s"], f["e"], helper, ("rule", "callfn"))
            self.fired("callfn")
        # R42: `S.iter().map(|s| s as &str).collect::<Vec<_>>()`  ->  __strs_of(&S)
        for n in walk(body):
            if n["k"] == "MethodCall" and n["a"]["method"] == "collect" and kid(n, "receiver")["k"] == "MethodCall" and kid(n, "receiver")["a"]["method"] == "map":
                mp = kid(n, "receiver")
                clo = kids(mp, "arg")[0]
                if clo["k"] == "Closure" and kid(clo, "body")["k"] == "Cast" and norm(kid(clo, "body")["a"]["ty"]) == "&str" \
                        and kid(mp, "receiver")["k"] == "MethodCall" and kid(mp, "receiver")["a"]["method"] == "iter":
                    S = kid(kid(mp, "receiver"), "receiver")
                    ed.replace(n["s"], S["s"], "__strs_of(&", ("rule", "R42"))
                    ed.replace(S["e"], n["e"], ")", ("rule", "R42"))
                    n["_handled"] = True
                    self.fired("R42")

        # R15: X.clone().or_else(|| Y.clone())  ->  __clone_or_else(&X, &Y)   (X, Y verbatim)
        # R14: V.extend(E)                       ->  __vec_extend(&mut V, E)
        for n in walk(body):
            if n["k"] != "MethodCall":
                continue
            if n["a"]["method"] == "or_else":
                rc, args = kid(n, "receiver"), kids(n, "arg")
                if (rc["k"] == "MethodCall" and rc["a"]["method"] == "clone" and not kids(rc, "arg") and len(args) == 1
                        and args[0]["k"] == "Closure" and not kids(args[0], "input")
                        and kid(args[0], "body")["k"] == "MethodCall" and kid(args[0], "body")["a"]["method"] == "clone"
                        and not kids(kid(args[0], "body"), "arg")):
                    X, Y = kid(rc, "receiver"), kid(kid(args[0], "body"), "receiver")
                    ed.replace(n["s"], X["s"], "__clone_or_else(&", ("rule", "R15"))
                    ed.replace(X["e"], Y["s"], ", &", ("rule", "R15"))
                    ed.replace(Y["e"], n["e"], ")", ("rule", "R15"))
                    self.fired("R15")
                else:
                    raise Inconclusive(f"unsupported construct: .or_else() shape at {src.rel}:{src.line_of(n['s'])}")
            elif n["a"]["method"] == "extend" and len(kids(n, "arg")) == 1:
                X, E = kid(n, "receiver"), kids(n, "arg")[0]
                ed.replace(n["s"], X["s"], ("__vec_extend_slice(&mut " if "extend=slice" in it["opts"] else "__vec_extend(&mut "), ("rule", "R14"))
                ed.replace(X["e"], E["s"], ", ", ("rule", "R14"))
                ed.replace(E["e"], n["e"], ")", ("rule", "R14"))
                self.fired("R14")

        # R4: (A..B).map(closure_local).collect()
        used_closures = set()
        for n in walk(body):
            if n["k"] == "MethodCall" and n["a"]["method"] == "collect":
                if n.get("_handled"):
                    continue
                rc = kid(n, "receiver")
                # R26: S.iter().map(<fn path>).collect()  (into a String)  ->  generated concatenation loop
                if rc["k"] == "MethodCall" and rc["a"]["method"] == "map" and len(kids(rc, "arg")) == 1 and kids(rc, "arg")[0]["k"] == "Path" \
                        and kids(rc, "arg")[0]["a"]["path"] in it.get("genfns", {}) \
                        and kid(rc, "receiver")["k"] == "MethodCall" and kid(rc, "receiver")["a"]["method"] == "iter":
                    fpath = kids(rc, "arg")[0]["a"]["path"]
                    spec = it["genfns"][fpath]
                    S = kid(kid(rc, "receiver"), "receiver")
                    gname = "__map_concat_" + re.sub(r"\W", "_", fpath)
                    ed.replace(n["s"], S["s"], gname + "(", ("rule", "R26"))
                    ed.replace(S["e"], n["e"], ")", ("rule", "R26"))
                    self.fired("R26")
                    pend = [(f"// R26: generated for `.iter().map({fpath}).collect()` into a String ({src.rel}:{src.line_of(n['s'])}): "
                             f"String: FromIterator<String> concatenates the pieces in order\nfn {gname}(__s: &[u8]) -> (r: String)\n", ("rule", "R26"))]
                    for kind in ("requires", "ensures"):
                        cs = [c for c in spec["clauses"] if c.kind == kind and c.active(self.prop)]
                        if cs:
                            pend.append((f"    {kind}\n", ("glue",)))
                            for c in cs:
                                self.reg(c)
                                pend.append(("        " + c.text + ",\n", ("clause", c.id)))
                    pend.append(("{\n    let mut __out = String::new();\n    for __i in 0..__s.len()\n", ("rule", "R26")))
                    cs = [c for c in spec["invariants"] if c.active(self.prop)]
                    if cs:
                        pend.append(("        invariant\n", ("glue",)))
                        for c in cs:
                            self.reg(c)
                            pend.append(("            " + c.text + ",\n", ("clause", c.id)))
                    pend.append((f"    {{\n        let __piece = {fpath}(&__s[__i]);\n        let ghost __o = __out@;\n        __out.push_str(__piece.as_str());\n"
                                 f"        proof {{ assert(__out@ =~= __o + __piece@); assert(__s@.subrange(0, __i + 1).drop_last() =~= __s@.subrange(0, __i as int)); }}\n    }}\n"
                                 f"    proof {{ assert(__s@.subrange(0, __s@.len() as int) =~= __s@); }}\n    __out\n}}\n", ("rule", "R26")))
                    self._pending.extend(pend)
                    continue
                # R7: A.into_iter().chain(B).collect()  ->  __btree_chain_collect(A, B)
                if rc["k"] == "MethodCall" and rc["a"]["method"] == "chain" and len(kids(rc, "arg")) == 1 \
                        and kid(rc, "receiver")["k"] == "MethodCall" and kid(rc, "receiver")["a"]["method"] == "into_iter":
                    A, B = kid(kid(rc, "receiver"), "receiver"), kids(rc, "arg")[0]
                    ed.replace(n["s"], A["s"], "__btree_chain_collect(", ("rule", "R7"))
                    ed.replace(A["e"], B["s"], ", ", ("rule", "R7"))
                    ed.replace(B["e"], n["e"], ")", ("rule", "R7"))
                    self.fired("R7")
                    continue
                if rc["k"] == "MethodCall" and rc["a"]["method"] == "map":
                    arg = kids(rc, "arg")[0]
                    rng = kid(rc, "receiver")
                    if rng["k"] == "Paren":
                        rng = kid(rng, "expr")
                    if arg["k"] == "Path" and arg["a"]["path"] in closure_locals and rng["k"] == "Range" \
                            and rng["a"]["limits"] == ".." and kid(rng, "start") and kid(rng, "end"):
                        cname = arg["a"]["path"]
                        if cname not in it["closurefns"]:
                            raise Inconclusive(f"unsupported construct: closure {cname} has no @closurefn in sidecar")
                        caps = it["closurefns"][cname]["captures"]
                        capnames = [c.split(":")[0].strip() for c in caps.split(",")]
                        A, B = kid(rng, "start"), kid(rng, "end")
                        ed.replace(n["s"], A["s"], f"__map_collect_{cname}(" + ", ".join("&" + c for c in capnames) + ", ", ("rule", "R4"))
                        ed.replace(A["e"], B["s"], ", ", ("rule", "R4"))
                        ed.replace(B["e"], n["e"], ")", ("rule", "R4"))
                        used_closures.add(cname)
                        self.fired("R4")
                        continue
                raise Inconclusive(f"unsupported construct: .collect() at {src.rel}:{src.line_of(n['s'])}")
        for cname in sorted(used_closures):
            loc = closure_locals[cname]
            ed.delete(loc["s"], loc["e"], ("rule", "R4"))
            clo = kid(loc, "init")
            spec = it["closurefns"][cname]
            ins = kids(clo, "input")
            outt = kid(clo, "output")
            if len(ins) != 1 or outt is None:
                raise Inconclusive(f"unsupported construct: closure {cname} shape")
            ivar = T(ins[0])
            pend = []
            pend.append((f"// R4: generated from closure `{cname}` ({src.rel}:{src.line_of(loc['s'])}); body spliced verbatim\n"
                         f"fn __map_collect_{cname}({spec['captures']}, __a: usize, __b: usize) -> (r: Vec<", ("rule", "R4")))
            pend.append((T(outt), ("src", src.rel, outt["s"])))
            pend.append((">)\n", ("rule", "R4")))
            for kind in ("requires", "ensures"):
                cs = [c for c in spec["clauses"] if c.kind == kind and c.active(self.prop)]
                if cs:
                    pend.append((f"    {kind}\n", ("glue",)))
                    for c in cs:
                        self.reg(c)
                        pend.append(("        " + c.text + ",\n", ("clause", c.id)))
            pend.append(("{\n    let mut __v: Vec<", ("rule", "R4")))
            pend.append((T(outt), ("src", src.rel, outt["s"])))
            pend.append((f"> = Vec::new();\n    for {ivar} in __a..__b\n", ("rule", "R4")))
            cs = [c for c in spec["invariants"] if c.active(self.prop)]
            if cs:
                pend.append(("        invariant\n", ("glue",)))
                for c in cs:
                    self.reg(c)
                    pend.append(("            " + c.text + ",\n", ("clause", c.id)))
            pend.append(("    {\n        __v.push(", ("rule", "R4")))
            cb = kid(clo, "body")
            pend.append((T(cb), ("src", src.rel, cb["s"])))
            pend.append((");\n    }\n    __v\n}\n", ("rule", "R4")))
            self._pending.extend(pend)

        # R44: `match E { "lit" => A, .., v => B }` over a str -> `{ let v = E; if __str_eq(v, "lit") { A } else .. { B } }`
        # (E, the literals and the arm bodies stay verbatim; Verus has no string-literal patterns)
        for n in walk(body):
            if n["k"] != "Match":
                continue
            arms = kids(n, "arm")
            if len(arms) < 2 or not all(kid(a, "pat")["k"] == "PatLit" and T(kid(a, "pat")).startswith('"') for a in arms[:-1]):
                continue
            lastp = kid(arms[-1], "pat")
            if lastp["k"] not in ("PatIdent", "PatWild") or any(c["r"] == "guard" for a in arms for c in a["c"]):
                continue
            var = lastp["a"]["ident"] if lastp["k"] == "PatIdent" else "__m"
            scr = kid(n, "scrutinee")
            ed.replace(n["s"], scr["s"], "{ let " + var + " = ", ("rule", "R44"))
            pos = scr["e"]
            for i, a in enumerate(arms[:-1]):
                b = kid(a, "body")
                ed.replace(pos, b["s"], ("; " if i == 0 else " else ") + "if __str_eq(" + var + ", " + T(kid(a, "pat")) + ") { ", ("rule", "R44"))
                pos = b["e"]
                ed.insert(pos, " }", ("rule", "R44"))
            b = kid(arms[-1], "body")
            ed.replace(pos, b["s"], " else { ", ("rule", "R44"))
            ed.replace(b["e"], n["e"], " } }", ("rule", "R44"))
            self.fired("R44")
        # R10: let type ascriptions
        for n in walk(body):
            if n["k"] == "Local":
                p = kid(n, "pat")
                if p["k"] == "PatIdent" and p["a"]["ident"] in it["letty"]:
                    ed.insert(p["e"], ": " + it["letty"][p["a"]["ident"]], ("rule", "R10"))
                    self.fired("R10")
        # R19: comparison operators whose operand types Verus has no usable spec for -> trusted helper (operands verbatim)
        for op, helper in it.get("binops", []):
            hit = 0
            want_lhs = None
            mm = re.match(r"^(\S+?)\[(.*)\]$", op)
            if mm:
                op, want_lhs = mm.group(1), norm(mm.group(2))
            for n in walk(body):
                if n["k"] == "Binary" and n["a"]["op"] == op:
                    A, B = kid(n, "left"), kid(n, "right")
                    if want_lhs is not None and norm(T(A)) != want_lhs:
                        continue
                    ed.replace(n["s"], A["s"], (helper[:-1] + "(&") if helper.endswith("&") else (helper + "("), ("rule", "R19"))
                    ed.replace(A["e"], B["s"], ", ", ("rule", "R19"))
                    ed.replace(B["e"], n["e"], ")", ("rule", "R19"))
                    hit += 1
                    self.fired("R19")
            if not hit:
                raise Inconclusive(f"lost anchor: {it['name']}: no `{op}` expression")
        # R11: trait-method -> free fn via checked forwarding impls
        for meth, func in it["callmap"]:
            hit = 0
            want_rc = None
            nargs = 0
            opt_map = meth.endswith("?")  # `m? => f`: the call may be absent (code that only a repaired tree has)
            meth = meth.rstrip("?")
            mm = re.match(r"^(\w+)/(\d+)(\[.*\])?$", meth)
            if mm:
                meth, nargs = mm.group(1) + (mm.group(3) or ""), int(mm.group(2))
            mm = re.match(r"^(\w+)\[(.*)\]$", meth)
            if mm:
                meth, want_rc = mm.group(1), norm(mm.group(2))
            for n in walk(body):
                if n["k"] == "MethodCall" and n["a"]["method"] == meth and len(kids(n, "arg")) == nargs:
                    if n.get("_handled_into"):
                        continue
                    rc = kid(n, "receiver")
                    if want_rc is not None and norm(T(rc)) != want_rc:
                        continue
                    if any(a0 <= n["s"] and n["e"] <= b0 for a0, b0 in dead):
                        hit += 1  # consumed by another rule that re-applies the call map itself
                        continue
                    # `helper&`: the receiver is passed by reference; `helper&mut`: by mutable reference
                    ed.insert(n["s"], (func[:-4] + "(&mut ") if func.endswith("&mut") else (func[:-1] + "(&") if func.endswith("&") else (func + "("), ("rule", "R11"), wraps=n["e"])
                    if nargs == 0:
                        ed.replace(rc["e"], n["e"], ")", ("rule", "R11"))
                    else:
                        a0 = kids(n, "arg")[0]
                        ed.replace(rc["e"], a0["s"], ", ", ("rule", "R11"))
                    hit += 1
                    self.fired("R11")
            if not hit:
                if opt_map:
                    continue
                raise Inconclusive(f"lost anchor: {it['name']}: no call .{meth}()")

        # R25: `reveal_strlit` for every plain string literal of the body (a reveal, not an assumption)
        lits = []
        for n in walk(body):
            if n["k"] == "Lit" and n["a"]["lit"].startswith('"') and n["a"]["lit"] not in lits:
                if any(a0 <= n["s"] and n["e"] <= b0 for a0, b0 in dead):
                    continue
                if n["p"]["k"] == "Macro" and n["p"]["a"]["mac"] in ("format", "anyhow", "anyhow::anyhow", "bail", "anyhow::bail", "debug", "trace"):
                    continue
                lits.append(n["a"]["lit"])
        if lits and not it["external"]:
            ed.insert(body["s"] + 1, " proof { " + " ".join(f"reveal_strlit({l});" for l in lits) + " }", ("rule", "R25"))
            self.fired("R25")

        # @around
        stmts = [n for n in walk(body) if n["r"] == "stmt"]
        for prefix, count, cl in it["arounds"]:
            if not cl.active(self.prop):
                continue
            hits = [s for s in stmts if norm(T(s)).startswith(norm(prefix))]
            if count is not None and len(hits) != count:
                raise Inconclusive(f"lost anchor: {it['name']}: {len(hits)} statements start with {prefix!r}, sidecar expects {count}")
            if not hits:
                raise Inconclusive(f"lost anchor: {it['name']}: no statement starts with {prefix!r}")
            before, after = cl.text
            self.reg(cl)
            for s in hits:
                if before:
                    ed.insert(s["s"], before + " ", ("clause", cl.id), prio=-1)
                semi = "" if s["a"].get("semi") or s["k"] != "StmtExpr" else ";"
                if after:
                    ed.insert(s["e"], semi + " " + after, ("clause", cl.id))
        # @at
        for anchor, cl in it["ats"]:
            if not cl.active(self.prop):
                continue
            self.reg(cl)
            if anchor.strip() == "tail":
                # bind the tail expression: `E`  ->  `let __r = E; <proof text> __r`
                last = [c for c in body["c"] if c["r"] == "stmt"]
                if not last or last[-1]["k"] != "StmtExpr" or last[-1]["a"].get("semi"):
                    raise Inconclusive(f"lost anchor: {it['name']} has no tail expression")
                te = last[-1]
                ed.insert(te["s"], "let __r = ", ("glue",), prio=-1)
                ed.insert(te["e"], ";\n" + cl.text + "\n__r", ("clause", cl.id))
                continue
            if anchor.strip() == "first":
                # the very beginning of the body, before generated reveals (Verus wants `hide(..)` headers there)
                ed.insert(body["s"] + 1, "\n" + cl.text + "\n", ("clause", cl.id), prio=-2)
                continue
            pos = self.resolve_anchor(it, src, body, loops, anchor)
            if anchor.strip() == "end":
                # a `let` keeps a following tail expression that starts with `(` from being parsed as a call of the proof block
                ed.insert(pos, "\n" + cl.text + "\nlet __end_anchor = ();\n", ("clause", cl.id), prio=-1)
                continue
            if isinstance(pos, tuple):
                self._placeholders.setdefault(pos[1], []).append(("\n" + cl.text + "\n", ("clause", cl.id)))
                continue
            ed.insert(pos, "\n" + cl.text + "\n", ("clause", cl.id))

    def resolve_anchor(self, it, src, body, loops, anchor):
        w = anchor.split()
        if w == ["begin"]:
            return body["s"] + 1
        if w == ["end"]:
            last = [c for c in body["c"] if c["r"] == "stmt"]
            if last and last[-1]["k"] == "StmtExpr" and not last[-1]["a"].get("semi"):
                return last[-1]["s"]
            return body["e"] - 1
        if w[0] == "loop":
            idx = int(w[1])
            if idx >= len(loops):
                raise Inconclusive(f"lost anchor: {it['name']} loop {idx}")
            n, kind = loops[idx]
            if w[2] == "exit" and kind == "windows_position":
                return ("placeholder", f"/*@@loop{idx}:exit@@*/")
            if w[2] == "begin":
                if kind in ("chars_map_join", "chars_index", "windows_position", "any", "all"):
                    return ("placeholder", f"/*@@loop{idx}:begin@@*/")
                b = kid(n, "body")
                if b is None:
                    raise Inconclusive(f"lost anchor: loop {idx} has no block body")
                return b["s"] + 1
            if w[2] == "end":
                b = kid(n, "body")
                if b is None or b["k"] != "Block":
                    raise Inconclusive(f"lost anchor: loop {idx} has no block body")
                return b["e"] - 1
            st = n
            while st is not None and st["r"] != "stmt":
                st = st["p"]
            if st is None:
                raise Inconclusive(f"lost anchor: loop {idx} not a statement")
            if w[2] == "before":
                return st["s"]
            if w[2] == "after":
                return st["e"]
        raise Inconclusive(f"sidecar: unknown anchor {anchor!r}")

    # (A..B).filter(|p| C).for_each(|q| D)   /   S.iter().for_each(|x| D)
    def rw_for_each(self, it, src, n, ed, pieces, idx):
        T = src.text
        clo = kids(n, "arg")[0]
        rc = kid(n, "receiver")
        if clo["k"] != "Closure" or len(kids(clo, "input")) != 1:
            raise Inconclusive(f"unsupported construct: for_each argument at {src.rel}:{src.line_of(n['s'])}")
        q = T(kids(clo, "input")[0])
        D = kid(clo, "body")
        st = n["p"]
        end = st["e"] if st["k"] == "StmtExpr" else n["e"]
        if rc["k"] == "MethodCall" and rc["a"]["method"] == "filter":
            fclo = kids(rc, "arg")[0]
            rng = kid(rc, "receiver")
            if rng["k"] == "Paren":
                rng = kid(rng, "expr")
            if fclo["k"] != "Closure" or rng["k"] != "Range" or rng["a"]["limits"] != ".." or not kid(rng, "start") or not kid(rng, "end"):
                raise Inconclusive(f"unsupported construct: filter().for_each() at {src.rel}:{src.line_of(n['s'])}")
            p = T(kids(fclo, "input")[0])
            C = kid(fclo, "body")
            A, B = kid(rng, "start"), kid(rng, "end")
            ed.replace(n["s"], A["s"], f"for {q} in ", ("rule", "R3"))
            ed.replace(A["e"], B["s"], "..", ("rule", "R3"))
            spec = "".join(t for t, _ in pieces)
            # invariants go between the range and the body
            ed.replace(B["e"], C["s"], "", ("rule", "R3"))
            for t, o in pieces:
                ed.insert(C["s"], t, o)
            ed.insert(C["s"], f"{{ if {{ let {p} = &{q}; ", ("rule", "R3"))
            ed.replace(C["e"], D["s"], " } { ", ("rule", "R3"))
            ed.replace(D["e"], end, " } }", ("rule", "R3"))
            self.fired("R3")
        elif rc["k"] == "MethodCall" and rc["a"]["method"] == "iter" and not kids(rc, "arg"):
            S = T(kid(rc, "receiver"))
            iv = f"__i{idx}"
            ed.replace(n["s"], D["s"], "", ("rule", "R2"))
            ed.insert(D["s"], f"for {iv} in 0..{S}.len()", ("rule", "R2"))
            for t, o in pieces:
                ed.insert(D["s"], t, o)
            ed.insert(D["s"], f"{{ let {q} = &{S}[{iv}]; ", ("rule", "R2"))
            ed.replace(D["e"], end, " }", ("rule", "R2"))
            self.fired("R2")
        elif rc["k"] == "MethodCall" and rc["a"]["method"] == "skip" and len(kids(rc, "arg")) == 1 and kids(rc, "arg")[0]["k"] == "Lit" \
                and kid(rc, "receiver")["k"] == "MethodCall" and kid(rc, "receiver")["a"]["method"] == "iter":
            # R2s: S.iter().skip(K).for_each(|x| D), K a literal  ->  for i in K..S.len() { let x = &S[i]; D }  (empty when K >= len)
            S = T(kid(kid(rc, "receiver"), "receiver"))
            K = T(kids(rc, "arg")[0])
            iv = f"__i{idx}"
            ed.replace(n["s"], D["s"], "", ("rule", "R2"))
            ed.insert(D["s"], f"for {iv} in {K}..{S}.len()", ("rule", "R2"))
            for t, o in pieces:
                ed.insert(D["s"], t, o)
            ed.insert(D["s"], f"{{ let {q} = &{S}[{iv}]; ", ("rule", "R2"))
            ed.replace(D["e"], end, " }", ("rule", "R2"))
            self.fired("R2s")
        else:
            raise Inconclusive(f"unsupported construct: for_each receiver at {src.rel}:{src.line_of(n['s'])}")

    # S.iter().skip(K).position(|x| P).map(|p| E)   as the tail expression of the function
    def rw_position(self, it, src, fn, body, n, ed, pieces, idx):
        T = src.text
        outer = n["p"]
        mapclo = None
        if outer["k"] == "MethodCall" and outer["a"]["method"] == "map" and kid(outer, "receiver") is n:
            mapclo = kids(outer, "arg")[0]
            top = outer
        else:
            top = n
        st = top["p"]
        if not (st["k"] == "StmtExpr" and not st["a"].get("semi") and st["p"] is body and body["c"][-1] is st):
            raise Inconclusive(f"unsupported construct: .position() not in tail position at {src.rel}:{src.line_of(n['s'])}")
        pclo = kids(n, "arg")[0]
        rc = kid(n, "receiver")
        K = "0"
        if rc["k"] == "MethodCall" and rc["a"]["method"] == "skip":
            K = T(kids(rc, "arg")[0])
            rc = kid(rc, "receiver")
        if not (rc["k"] == "MethodCall" and rc["a"]["method"] == "iter" and pclo["k"] == "Closure"):
            raise Inconclusive(f"unsupported construct: .position() receiver at {src.rel}:{src.line_of(n['s'])}")
        S = T(kid(rc, "receiver"))
        x = T(kids(pclo, "input")[0])
        P = kid(pclo, "body")
        iv = f"__i{idx}"
        ed.replace(top["s"], P["s"], "", ("rule", "R5"))
        ed.insert(P["s"], f"let mut {iv}: usize = {K};\n        while {iv} < {S}.len()", ("rule", "R5"))
        for t, o in pieces:
            ed.insert(P["s"], t, o)
        ed.insert(P["s"], f"{{\n            let {x} = &{S}[{iv}];\n            if ", ("rule", "R5"))
        if mapclo is not None:
            if mapclo["k"] != "Closure" or len(kids(mapclo, "input")) != 1:
                raise Inconclusive("unsupported construct: .map() after .position()")
            pv = T(kids(mapclo, "input")[0])
            E = kid(mapclo, "body")
            ed.replace(P["e"], E["s"], f" {{ let {pv}: usize = {iv} - {K}; return Some(", ("rule", "R5"))
            ed.replace(E["e"], top["e"], f"); }}\n            {iv} += 1;\n        }}\n        None", ("rule", "R5"))
        else:
            ed.replace(P["e"], top["e"], f" {{ return Some({iv} - {K}); }}\n            {iv} += 1;\n        }}\n        None", ("rule", "R5"))
        self.fired("R5")

    # S.iter().any(|x| P)  as the tail expression
    def rw_any(self, it, src, fn, body, n, ed, pieces, idx, kind):
        T = src.text
        st = n["p"]
        if not (st["k"] == "StmtExpr" and not st["a"].get("semi") and st["p"] is body and body["c"][-1] is st):
            raise Inconclusive(f"unsupported construct: .{kind}() not in tail position at {src.rel}:{src.line_of(n['s'])}")
        pclo = kids(n, "arg")[0]
        rc = kid(n, "receiver")
        if not (rc["k"] == "MethodCall" and rc["a"]["method"] == "iter" and pclo["k"] == "Closure"):
            raise Inconclusive(f"unsupported construct: .{kind}() receiver")
        S = T(kid(rc, "receiver"))
        x = T(kids(pclo, "input")[0])
        P = kid(pclo, "body")
        iv = f"__i{idx}"
        ed.replace(n["s"], P["s"], "", ("rule", "R6"))
        ed.insert(P["s"], f"let mut {iv}: usize = 0;\n        while {iv} < {S}.len()", ("rule", "R6"))
        for t, o in pieces:
            ed.insert(P["s"], t, o)
        if kind == "any":
            ed.insert(P["s"], f"{{\n            let {x} = &{S}[{iv}]; /*@@loop{idx}:begin@@*/\n            if ", ("rule", "R6"))
            ed.replace(P["e"], n["e"], f" {{ return true; }}\n            {iv} += 1;\n        }}\n        false", ("rule", "R6"))
        else:
            ed.insert(P["s"], f"{{\n            let {x} = &{S}[{iv}]; /*@@loop{idx}:begin@@*/\n            if !(", ("rule", "R6"))
            ed.replace(P["e"], n["e"], f") {{ return false; }}\n            {iv} += 1;\n        }}\n        true", ("rule", "R6"))
        self.fired("R6")

    def format_helper(self, lit, pos_args, src, n):
        """-> (helper name, call argument texts); emits the helper once per distinct literal"""
        body = lit[1:-1]
        # rust string escapes
        out = []
        i = 0
        while i < len(body):
            c = body[i]
            if c == "\\":
                d = body[i + 1]
                m = {"n": "\n", "t": "\t", "r": "\r", "\\": "\\", '"': '"', "'": "'", "0": "\0"}
                if d not in m:
                    raise Inconclusive(f"unsupported construct: escape \\{d} in format literal at {src.rel}:{src.line_of(n['s'])}")
                out.append(m[d])
                i += 2
            else:
                out.append(c)
                i += 1
        text = "".join(out)
        pieces = []  # ("lit", str) | ("arg", idx, spec)
        params, call_args = [], []
        cur = ""
        i = 0
        npos = 0
        while i < len(text):
            if text.startswith("{{", i):
                cur += "{"; i += 2
            elif text.startswith("}}", i):
                cur += "}"; i += 2
            elif text[i] == "{":
                j = text.index("}", i)
                inner = text[i + 1:j]
                nm, _, fmtspec = inner.partition(":")
                if cur:
                    pieces.append(("lit", cur)); cur = ""
                if nm == "":
                    if npos >= len(pos_args):
                        raise Inconclusive("unsupported construct: format! placeholder without argument")
                    arg = pos_args[npos]; npos += 1
                elif re.match(r"^[A-Za-z_]\w*$", nm):
                    arg = nm
                else:
                    raise Inconclusive(f"unsupported construct: format placeholder {{{inner}}}")
                k = len(params)
                fa = getattr(self, "_fmtargs", {}).get(norm(arg).lstrip("&*"))
                if fmtspec == "" and fa:
                    # `@fmtarg x : i32 : *x` — Display of an integer: its decimal text (uninterpreted `int_text`)
                    params.append(f"a{k}: {fa[0]}"); call_args.append(fa[1]); pieces.append(("arg", f"int_text(a{k} as int)"))
                    key_extra = getattr(self, "_fmt_key_extra", "") + f"|{k}:{fa[0]}"
                    self._fmt_key_extra = key_extra
                elif fmtspec == "":
                    params.append(f"a{k}: &str"); call_args.append(f"&{arg}"); pieces.append(("arg", f"a{k}@"))
                elif fmtspec == "02x":
                    params.append(f"a{k}: u8"); call_args.append(f"{arg}"); pieces.append(("arg", f"hex2(a{k})"))
                else:
                    raise Inconclusive(f"unsupported construct: format spec {{:{fmtspec}}} at {src.rel}:{src.line_of(n['s'])}")
                i = j + 1
            else:
                cur += text[i]; i += 1
        if cur:
            pieces.append(("lit", cur))
        key = hashlib.sha256((lit + getattr(self, "_fmt_key_extra", "")).encode()).hexdigest()[:8]
        self._fmt_key_extra = ""
        name = f"__fmt_{key}"
        if name not in self._consts:
            self._consts.add(name)
            def charlit(ch):
                return {"\\": "'\\\\'", "'": "'\\''", "\n": "'\\n'", "\t": "'\\t'", "\r": "'\\r'", "\0": "'\\0'"}.get(ch, f"'{ch}'")
            terms = []
            for p in pieces:
                if p[0] == "lit":
                    terms.append("seq![" + ", ".join(charlit(ch) for ch in p[1]) + "]")
                else:
                    terms.append(p[1])
            spec = " + ".join(terms) if terms else "Seq::<char>::empty()"
            self._pending_global = getattr(self, "_pending_global", [])
            self._pending_global.append((
                f"// R8': format!({lit}, ..) — ensures derived from the literal; core::fmt semantics of {{}} (str) and {{:02x}} (u8) assumed\n"
                f"#[verifier::external_body]\npub fn {name}({', '.join(params)}) -> (r: String)\n    ensures r@ =~= {spec}\n{{ unimplemented!() }}\n",
                ("trusted", f"format helper {name} for {lit}")))
        return name, call_args

    # ---- forwarding impl checks (R11) ---------------------------------------------------------
    def check_forwards(self):
        for rel, path, expect, where in self.unit.forwards:
            src = Src.get(rel)
            _, fn = find_fn(src, path)
            b = kid(fn, "body")
            got = norm(src.text(b))[1:-1]
            if got != norm(expect):
                raise Inconclusive(f"lost anchor: forwarding impl {path} body is `{got}`, expected `{norm(expect)}`")

    # ---- whole file -------------------------------------------------------------------------
    def build(self):
        self.check_forwards()
        self.emit("// GENERATED by /verif/vx/vx.py from /repo working tree — do not edit\n"
                  "#![allow(unused_imports, unused_variables, unused_mut, dead_code, unused_assignments, unused_parens, non_snake_case)]\n"
                  "use vstd::prelude::*;\nverus! {\n", ("glue",))
        for u in self.unit.uses:
            p = os.path.join(os.path.dirname(self.unit.path), u)
            self.emit(open(p).read() + "\n", ("file", u))
        # consecutive @fn items of the same trait impl are emitted inside ONE impl block
        fnitems = self.unit.items
        for idx, it in enumerate(fnitems):
            if it["kind"] != "fn" or "free" in it["opts"] or "inherent" in it["opts"]:
                continue
            try:
                srcx = Src.get(it["rel"])
                implx, _ = find_fn(srcx, it["name"])
            except Inconclusive:
                continue
            it["_implkey"] = (it["rel"], implx["s"]) if implx is not None and implx["k"] == "Impl" and "trait" in implx["a"] else None
        for idx, it in enumerate(fnitems):
            k = it.get("_implkey")
            if k is None:
                continue
            prev = fnitems[idx - 1].get("_implkey") if idx > 0 else None
            nxt = fnitems[idx + 1].get("_implkey") if idx + 1 < len(fnitems) else None
            it["_open"] = prev != k
            it["_close"] = nxt != k
        for it in self.unit.items:
            if it["kind"] == "raw":
                if it.get("only") and self.prop is not None and self.prop not in it["only"]:
                    continue
                self.emit(it["text"] + "\n", ("raw", it["tag"]))
            elif it["kind"] in ("struct", "enum", "const"):
                self.emit_type(it)
            elif it["kind"] == "trait":
                self.emit_trait(it)
            elif it["kind"] == "expr":
                self.emit_expr(it)
                if self.vacuity:
                    self.vac = True
                    try:
                        self.emit_expr(it)
                    finally:
                        self.vac = False
            elif it["kind"] == "fn":
                only = [o[5:].split(",") for o in it["opts"] if o.startswith("only=")]
                if only and self.prop is not None and self.prop not in only[0]:
                    continue
                self.emit_fn(it)
                if self.vacuity and not it["external"] and it.get("_implkey") is None:
                    # (methods kept inside a trait impl get no vacuity copy: a trait impl cannot hold extra methods)
                    self.vac = True
                    try:
                        self.emit_fn(it)
                    finally:
                        self.vac = False
        self.emit("\n} // verus!\nfn main() {}\n", ("glue",))
        text = "".join(t for t, _ in self.segs)
        # offset table
        table = []
        pos = 0
        for t, o in self.segs:
            b = len(t.encode())
            table.append((pos, pos + b, o))
            pos += b
        for i0, i1, it in self.fn_segs:
            if i0 < i1:
                self.fn_ranges.append((table[i0][0], table[i1 - 1][1], it))
        return text, table


def origin_at(table, off):
    lo, hi = 0, len(table) - 1
    while lo <= hi:
        mid = (lo + hi) // 2
        s, e, o = table[mid]
        if off < s:
            hi = mid - 1
        elif off >= e:
            lo = mid + 1
        else:
            return o
    return ("glue",)


# ---------------------------------------------------------------------------------------------
# running verus

DEFINITE = (
    "postcondition not satisfied", "invariant not satisfied", "precondition not satisfied", "assertion failed",
    "possible arithmetic underflow/overflow", "decreases not satisfied", "possible division by zero",
    "loop invariant", "failed this postcondition", "possible bit shift underflow/overflow",
    "cannot show invariant holds", "index out of bounds", "unreachable", "recommendation not met",
    "could not show termination", "failed precondition", "unable to prove assertion safely", "Could not prove termination",
    "constructed value may fail to meet its declared type invariant",
)
RESOURCE = ("rlimit", "Resource limit", "timed out", "out of memory", "resource limit")


class RunResult:
    pass


def scan_trusted(text):
    pats = ["assume(", "admit(", "external_body", "assume_specification", "uninterp", "exec_allows_no_decreases_clause",
            "external_type_specification", "#[verifier::external", "axiom"]
    found = {}
    for p in pats:
        c = text.count(p)
        if c:
            found[p] = c
    return found


def run_verus(text, table, outpath, rlimit=None, extra=(), multiple_errors=50):
    os.makedirs(os.path.dirname(outpath), exist_ok=True)
    with open(outpath, "w") as f:
        f.write(text)
    cmd = ["verus", outpath, "--output-json", "--time", "--error-format=json", "--multiple-errors", str(multiple_errors)]
    if rlimit:
        cmd += ["--rlimit", str(rlimit)]
    cmd += list(extra)
    t0 = time.time()
    p = subprocess.run(cmd, capture_output=True, cwd=os.path.dirname(outpath))
    wall = time.time() - t0
    r = RunResult()
    r.cmd = " ".join(cmd)
    r.wall = wall
    r.returncode = p.returncode
    r.stderr = p.stderr.decode(errors="replace")
    try:
        r.json = json.loads(p.stdout.decode(errors="replace"))
    except Exception:
        r.json = None
    r.diags = []
    for line in r.stderr.split("\n"):
        line = line.strip()
        if line.startswith("{"):
            try:
                d = json.loads(line)
            except Exception:
                continue
            if d.get("level") in ("error",) and d.get("spans"):
                r.diags.append(d)
            elif d.get("level") == "error" and "aborting" not in d.get("message", ""):
                r.diags.append(d)
    return r


def classify(r, table, gen):
    """-> (failures: list of dict(clause_id, kind, message, origin, rendered), tool_errors: list)"""
    failures, tool = [], []
    # line -> enclosing function (for safety obligations)
    for d in r.diags:
        msg = d.get("message", "")
        spans = list(d.get("spans", []))
        for ch in d.get("children", []):
            spans += ch.get("spans", [])
        origins = [(sp, origin_at(table, sp["byte_start"])) for sp in spans]
        definite = any(k in msg for k in DEFINITE)
        resource = any(k in msg for k in RESOURCE)
        entry = {"message": msg, "rendered": d.get("rendered", ""), "origins": [list(o) for _, o in origins]}
        if resource:
            entry["kind"] = "resource"
            tool.append(entry)
            continue
        if not definite:
            entry["kind"] = "tool"
            tool.append(entry)
            continue
        cl = None
        # which clause failed: the span Verus labels "failed this postcondition" / "failed precondition" names it;
        # otherwise the primary span (invariants, assertions); other secondary spans ("at the end of the function
        # body", "at this call") only say where.
        def prio(x):
            lab = (x[0].get("label") or "")
            return 0 if "failed" in lab else (1 if x[0].get("is_primary") else 2)
        for sp, o in sorted(origins, key=prio):
            if o[0] == "clause":
                cl = o[1]
                break
        entry["kind"] = "clause" if cl else "safety"
        entry["clause"] = cl
        if cl is None:
            prim0 = [sp for sp, o in origins if sp.get("is_primary")]
            off = prim0[0]["byte_start"] if prim0 else None
            entry["fn"] = None
            for a, b, it in gen.fn_ranges:
                if off is not None and a <= off < b:
                    entry["fn"] = it["name"]
                    if it["safety"] is not None:
                        entry["clause"] = it["safety"].id
                    else:
                        entry["clause"] = it["name"] + ".safety"
            if entry["clause"] is None:
                entry["kind"] = "lemma"  # failure inside a lemma/prelude file: the machinery itself
        prim = [(sp, o) for sp, o in origins if sp.get("is_primary")]
        entry["primary"] = list(prim[0][1]) if prim else None
        entry["byte_start"] = prim[0][0]["byte_start"] if prim else None
        failures.append(entry)
    return failures, tool
