"""thorough-tier extras: bounded cross-checks and axiom validation over the real crate. Labelled BOUNDED in the evidence,
never added to `discharged`. A concrete failing input found here is a genuine violation and is reported as one."""
import enumerators


def run(name, prop, seed, table=None):
    if name == "e2e":
        import e2e
        return e2e.run(prop, deep=table is None)
    assert name == "replay"
    ok, err = enumerators.build()
    if not ok:
        return {"coverage": {"error": err[-300:]}, "inconclusive": "replay crate does not build offline against the current tree"}
    runs, viol = [], []
    for c in (table or enumerators.THOROUGH).get(prop, []):
        r = enumerators.run_cmd(c)
        runs.append({"cmd": "verif-replay " + " ".join(c), "cases": r.get("cases", 0), "violations": len(r.get("violations", [])), "bounded": True,
                     "error": r.get("error")})
        if r.get("error"):
            return {"coverage": {"bounded_crosscheck": runs}, "inconclusive": "enumerator crashed: " + r["error"][:200]}
        # an enumerator may class its failing inputs (`class`): one violation per class, clause id bounded.<cmd>.<class>, so that a
        # listed known finding suppresses exactly its class
        vs = r.get("violations", [])
        if vs and isinstance(vs[0], dict) and "class" in vs[0]:
            firsts = {}
            for v in vs:
                firsts.setdefault(v["class"], v)
            picked = [("bounded." + c[0] + "." + k, v) for k, v in sorted(firsts.items())]
        else:
            picked = [("bounded." + c[0], v) for v in vs[:1]]
        for cid, v in picked:
            viol.append({"unit": "replay", "clause": cid, "message": "bounded enumeration over the real crate found a failing input",
                         "fn": None, "rendered": str(v)[:1500], "clause_text": " ".join(c), "where": "replay/src/main.rs", "enum": {"cmd": c, "case": v}})
    return {"coverage": {"label": "BOUNDED cross-check (not counted as discharged)", "runs": runs}, "violations": viol}
