"""BOUNDED end-to-end stand-in for the part of C14 / C15 that lives in the binary (src/bin/commands/test.rs: how ExecutionError::Skipped and
ExecutionError::Timeout become per-test results and the process exit status). No contract can reach that function (330 lines of process
spawning, progress output and iterator chains in the bin crate), so the real `scrut` binary is built from the current working tree and
run on small generated documents; `scrut test -r json` and the exit status are compared with the property statement.
Labelled BOUNDED, never counted as discharged; a failing document is reported as a violation with the document as replay input."""
import json
import os
import shutil
import subprocess
import tempfile

import vx

TARGET = os.path.join(vx.BUILD, "scrutbin")
BIN = os.path.join(TARGET, "debug", "scrut")


def build():
    env = dict(os.environ, CARGO_NET_OFFLINE="true", CARGO_TARGET_DIR=TARGET)
    p = subprocess.run(["cargo", "build", "--offline", "--bin", "scrut", "--manifest-path", os.path.join(vx.REPO, "Cargo.toml")],
                       capture_output=True, text=True, env=env)
    if p.returncode != 0 or not os.path.exists(BIN):
        return False, (p.stderr or p.stdout)[-1500:]
    return True, ""


def scrut(docs, args=()):
    """run `scrut test -r json` on the named documents (in that order) in a fresh directory: (exit status, [(location, kind)])"""
    d = tempfile.mkdtemp(prefix="verif-e2e-")
    try:
        for name, text in docs:
            open(os.path.join(d, name), "w").write(text)
        env = {k: v for k, v in os.environ.items() if not k.startswith("SCRUT")}
        env.update(NO_COLOR="1", TMPDIR=d)
        p = subprocess.run([BIN, "test", "-r", "json", *args, *[n for n, _ in docs]], cwd=d, capture_output=True, text=True, timeout=120, env=env)
        try:
            res = [(e.get("location"), e["result"]["kind"]) for e in json.loads(p.stdout)]
        except Exception:
            res = None
        return p.returncode, res, (p.stderr or "")[:4000]
    finally:
        shutil.rmtree(d, ignore_errors=True)


def md(tests, front=""):
    """tests: [(command, [output lines], inline config or '')]"""
    out = front
    for i, (cmd, exp, cfg) in enumerate(tests):
        out += f"# Test {i + 1}\n\n```scrut{(' ' + cfg) if cfg else ''}\n$ {cmd}\n" + "".join(l + "\n" for l in exp) + "```\n\n"
    return out


def cram(tests):
    out = ""
    for i, (cmd, exp, _cfg) in enumerate(tests):
        out += f"Test {i + 1}\n  $ {cmd}\n" + "".join("  " + l + "\n" for l in exp) + "\n"
    return out


def first_error(stderr):
    for l in (stderr or "").split("\n"):
        if "Error:" in l:
            return l.split("Error:", 1)[1].strip()[:200]
    return (stderr or "").strip()[:200]


def run_jobs(jobs):
    """the documents are independent runs of the binary in directories of their own: a small pool"""
    from concurrent.futures import ThreadPoolExecutor

    def one(j):
        prop, label, docs, pred, want_exit, args, expect = j[:7]
        cls = j[7] if len(j) > 7 else None
        rc, res, err = scrut(docs, args)
        got = None if res is None else [k for _, k in res]
        if want_exit is None:
            # "is never reported as succeeded": the run fails (50: results say so; 1: scrut gave up on the document, nothing is reported)
            if (rc == 50 and got is not None and pred(got)) or (rc == 1 and (got is None or pred(got))):
                return None
            return {"class": cls, "why": f"{prop}: {label}: results {got} exit {rc}, expected {expect} and a failing exit status", "case": {"docs": docs, "args": list(args)}}
        if got is None or not pred(got) or rc != want_exit:
            return {"class": cls, "why": f"{prop}: {label}: results {got} exit {rc}, expected {expect} exit {want_exit}" + (f" [{first_error(err)}]" if res is None else ""),
                    "case": {"docs": docs, "args": list(args)}}
        return None
    with ThreadPoolExecutor(max_workers=6) as ex:
        out = list(ex.map(one, jobs))
    return len(jobs), [o for o in out if o]


OK_DOC = ("zz_other.md", md([("echo other", ["other"], "")]))


def c15(deep):
    """every position of the skipping test case in documents of 1..3 (deep: 4) test cases; default code, document-wide custom code, code of
    the one test case; a failing expectation before / after it; the skip code written as expected exit code; Markdown and Cram; a second
    document that must be unaffected; documents without a skip code among them"""
    jobs = []

    def check(label, docs, want_kinds, want_exit, args=()):
        jobs.append(("C15", label, docs, (lambda g, w=want_kinds: g == w), want_exit, args, str(want_kinds)))

    for fmt in ("md", "cram"):
        for n in range(1, (4 if deep else 3) + 1):
            for pos in range(n):
                variants = [("default code 80", 80, "", "")]
                if fmt == "md":
                    variants += [("document-wide code 81", 81, "---\ndefaults:\n  skip_document_code: 81\n---\n\n", ""),
                                 ("code 82 set for that test case", 82, "", "{skip_document_code: 82}"),
                                 ("document-wide 81 overridden by 82 for that test case", 82, "---\ndefaults:\n  skip_document_code: 81\n---\n\n", "{skip_document_code: 82}")]
                for vname, code, front, inline in variants:
                    for flavour in ("plain", "failing-neighbours", "expected-code"):
                        tests = []
                        for i in range(n):
                            if i == pos:
                                tests.append((f"(exit {code})", [f"[{code}]"] if flavour == "expected-code" else [], inline))
                            else:
                                tests.append((f"echo t{i}", ["WRONG"] if flavour == "failing-neighbours" else [f"t{i}"], ""))
                        doc = (("a_skip.md", md(tests, front)) if fmt == "md" else ("a_skip.t", cram(tests)))
                        check(f"{fmt}, {n} test case(s), test case {pos + 1} exits with its skip code ({vname}), {flavour}", [doc, OK_DOC],
                              ["skipped"] * n + ["success"], 0)
            # no test case exits with a skip code: nothing is skipped; 80 is not the skip code when another one is configured
            tests = [(f"echo t{i}", [f"t{i}"], "") for i in range(n)]
            doc = (("b_plain.md", md(tests)) if fmt == "md" else ("b_plain.t", cram(tests)))
            check(f"{fmt}, {n} passing test case(s), no skip code", [doc, OK_DOC], ["success"] * (n + 1), 0)
            tests = [(f"echo t{i}", ["WRONG"] if i == 0 else [f"t{i}"], "") for i in range(n)]
            doc = (("c_fail.md", md(tests)) if fmt == "md" else ("c_fail.t", cram(tests)))
            check(f"{fmt}, {n} test case(s), the first fails, no skip code", [doc, OK_DOC], ["malformed_output"] + ["success"] * n, 50)
        if fmt == "cram":
            # the single-script execution keeps running after a test case has exited with the skip code: what comes later must not change the verdict
            t = [("echo t0", ["t0"], ""), ("(exit 80)", [], ""), ("sleep 6", [], "")]
            jobs.append(("C15", "cram, test case 2 exits with the skip code, test case 3 then runs into --timeout-seconds 2", [("e_skip_then_timeout.t", cram(t)), OK_DOC],
                         (lambda g: g == ["skipped"] * 3 + ["success"]), 0, ("--timeout-seconds", "2"), "3 x skipped + success", "cram-skip-then-timeout"))
            t = [("echo t0", ["t0"], ""), ("(exit 80)", [], ""), ("kill -9 $$", [], "")]
            jobs.append(("C15", "cram, test case 2 exits with the skip code, test case 3 then kills the shell", [("f_skip_then_killed.t", cram(t)), OK_DOC],
                         (lambda g: g == ["skipped"] * 3 + ["success"]), 0, (), "3 x skipped + success", "cram-skip-then-killed"))
            t = [("trap 'exit 80' EXIT", [], ""), ("echo fine", ["fine"], "")]
            jobs.append(("C15", "cram, no test case exits with the skip code but the script as a whole does (trap on EXIT)", [("g_script_exit.t", cram(t)), OK_DOC],
                         (lambda g: g == ["success"] * 3), 0, (), "3 x success", "cram-script-exit-code"))
        if fmt == "md":
            # Markdown documents run with --cram-compat (single-script execution): a skip code set for one test case
            t = [("echo t0", ["t0"], ""), ("(exit 5)", [], "{skip_document_code: 5}")]
            jobs.append(("C15", "md under --cram-compat, test case 2 exits with its own skip code 5", [("h_compat.md", md(t)), OK_DOC],
                         (lambda g: g == ["skipped"] * 2 + ["success"]), 0, ("--cram-compat",), "2 x skipped + success", "cram-per-test-code"))
            tests = [("echo t0", ["t0"], ""), ("(exit 80)", ["[80]"], ""), ("echo t2", ["t2"], "")]
            check("md, exit 80 expected and produced while the document-wide skip code is 81", [("d_other_code.md", md(tests, "---\ndefaults:\n  skip_document_code: 81\n---\n\n")), OK_DOC],
                  ["success"] * 4, 0)
    return run_jobs(jobs)


def c14(deep):
    """a slow test case (sleep 6) at every position of a 3-test document under a per-test-case timeout (300 ms), a document timeout (front
    matter total_timeout 1500 ms / --timeout-seconds 2), both (either one shorter), and generous limits that are never reached; Markdown and Cram"""
    jobs = []

    def check(label, docs, pred, want_exit, args=(), expect=""):
        jobs.append(("C14", label, docs, pred, want_exit, args, expect))

    for pos in range(3):
        for vname, front, inline, args in [
                ("per-test timeout 300ms", "", "{timeout: 300ms}", ()),
                ("per-test timeout 300ms, document unlimited (total_timeout: 0s)", "---\ntotal_timeout: 0s\n---\n\n", "{timeout: 300ms}", ()),
                ("per-test timeout 300ms shorter than --timeout-seconds 20", "", "{timeout: 300ms}", ("--timeout-seconds", "20")),
                ("document total_timeout 1500ms", "---\ntotal_timeout: 1500ms\n---\n\n", "", ()),
                ("document total_timeout 1500ms shorter than the per-test timeout 20s", "---\ntotal_timeout: 1500ms\n---\n\n", "{timeout: 20s}", ()),
                ("--timeout-seconds 2", "", "", ("--timeout-seconds", "2")),
                # the per-test limit comes from the document's `defaults` (C16's layer below the test case): it must be in effect when the limit is computed
                ("per-test timeout 1500ms from the document defaults (it applies to the quick test cases as well)", "---\ndefaults:\n  timeout: 1500ms\n---\n\n", "", ())]:
            tests = [("sleep 6", [], inline) if i == pos else (f"echo t{i}", [f"t{i}"], "") for i in range(3)]
            want = ["success"] * pos + ["timeout"] + ["skipped"] * (2 - pos) + ["success"]
            check(f"md, slow test case at position {pos + 1}, {vname}", [("a_slow.md", md(tests, front)), OK_DOC], lambda g, w=want: g == w, 50, args, str(want))
        # Cram: one script, only the document limit applies; which test case was running is not known to scrut: a timeout is reported,
        # nothing after it is reported as passed, the other document is unaffected
        tests = [("sleep 6", [], "") if i == pos else (f"echo t{i}", [f"t{i}"], "") for i in range(3)]

        def cram_ok(g):
            if len(g) != 4 or g[3] != "success" or "timeout" not in g[:3]:
                return False
            k = g.index("timeout")
            return all(x == "skipped" for x in g[k + 1:3]) and all(x in ("success", "timeout") for x in g[:k])
        check(f"cram, slow test case at position {pos + 1}, --timeout-seconds 2", [("a_slow.t", cram(tests)), OK_DOC], cram_ok, 50, ("--timeout-seconds", "2"),
              "a timeout, then only skipped, then the other document's success")
    # the limit is on the command, not on its output pipes: a command that closes / redirects its streams is still aborted
    tests = [("echo t0", ["t0"], ""), ("exec >/dev/null 2>&1; sleep 4", [], "{timeout: 1s}"), ("echo t2", ["t2"], "")]
    check("md, the slow test case redirects its own streams (`exec >/dev/null 2>&1; sleep 4`) under a per-test timeout of 1s", [("f_closed.md", md(tests)), OK_DOC],
          lambda g: g == ["success", "timeout", "skipped", "success"], 50, (), "['success', 'timeout', 'skipped', 'success']")
    jobs[-1] = jobs[-1] + ("closed-streams",)
    # Cram: the test case that was running when the document limit struck is the one that failed, the finished ones before it passed
    tests = [("echo t0", ["t0"], ""), ("echo t1", ["t1"], ""), ("sleep 6", [], "")]
    check("cram, the third test case is the slow one, --timeout-seconds 2", [("g_position.t", cram(tests)), OK_DOC],
          lambda g: g == ["success", "success", "timeout", "success"], 50, ("--timeout-seconds", "2"), "['success', 'success', 'timeout', 'success']")
    jobs[-1] = jobs[-1] + ("cram-timeout-position",)
    for vname, front, inline, args in [("no limits given", "", "", ()), ("generous per-test and document limits", "---\ntotal_timeout: 30s\n---\n\n", "{timeout: 20s}", ("--timeout-seconds", "40")),
                                       ("document unlimited", "---\ntotal_timeout: 0s\n---\n\n", "", ())]:
        tests = [("sleep 0.3; echo t0", ["t0"], inline), ("echo t1", ["t1"], inline)]
        check(f"md, commands finish inside every limit ({vname})", [("e_fast.md", md(tests, front)), OK_DOC], lambda g: g == ["success"] * 3, 0, args, "3 x success")
    return run_jobs(jobs)


def c05(deep):
    """a command that ends without an exit code (kills its own shell with SIGKILL / SIGTERM) at every position of a 3-test document, Markdown
    and Cram: neither it nor any later test case is reported as succeeded, and the run does not exit 0; the earlier ones are unaffected
    when results are reported at all (scrut may instead give up on the document: exit 1)"""
    jobs = []
    for fmt in ("md", "cram"):
        for sig in ("KILL", "TERM"):
            for pos in range(3):
                # the test cases after the killed one are silent and expect nothing: had they "run" with an empty output and exit code 0 they would pass
                tests = [(f"kill -{sig} $$", [], "") if i == pos else ((f"echo t{i}", [f"t{i}"], "") if i < pos else ("true", [], "")) for i in range(3)]
                doc = ("a_killed.md", md(tests)) if fmt == "md" else ("a_killed.t", cram(tests))

                def pred(g, pos=pos):
                    return len(g) <= 3 and all(k != "success" for k in g[pos:]) and all(k == "success" for k in g[:pos])
                jobs.append(("C05", f"{fmt}, test case {pos + 1} kills its shell with SIG{sig}", [doc], pred, None, (), "no success at or after the killed test case"))
    return run_jobs(jobs)


def c14_aborted():
    """`is aborted`: after the timeout has been reported the rest of the command must not run (a marker file it would create stays away)"""
    import time
    import uuid
    mark = os.path.join(tempfile.gettempdir(), "verif-e2e-mark-" + uuid.uuid4().hex)
    tests = [(f"sleep 2; touch {mark}", [], "{timeout: 1s}")]
    docs = [("h_aborted.md", md(tests))]
    rc, res, err = scrut(docs, ())
    got = None if res is None else [k for _, k in res]
    time.sleep(2.5)
    ran_on = os.path.exists(mark)
    if ran_on:
        os.unlink(mark)
    if got != ["timeout"] or rc != 50:
        return {"class": None, "why": f"C14: md, `sleep 2; touch <marker>` under a per-test timeout of 1s: results {got} exit {rc}, expected ['timeout'] exit 50", "case": {"docs": docs, "args": []}}
    if ran_on:
        return {"class": "not-aborted", "why": "C14: md, `sleep 2; touch <marker>` under a per-test timeout of 1s: reported as timeout after 1 s, but the command ran on: the marker file appeared afterwards (the shell is not killed)",
                "case": {"docs": docs, "args": []}}
    return None


TABLE = {"C05": c05, "C14": c14, "C15": c15}


def run(prop, deep):
    ok, err = build()
    if not ok:
        return {"coverage": {"error": err[-300:]}, "inconclusive": "the scrut binary does not build offline from the current tree"}
    cases, bad = TABLE[prop](deep)
    if prop == "C14":
        cases += 1
        b = c14_aborted()
        if b:
            bad.append(b)
    viol = []
    # one violation per class (a document family may carry a class, so that a listed known finding suppresses exactly that family)
    firsts = {}
    for b in bad:
        firsts.setdefault(b.get("class"), b)
    for cls, b in sorted(firsts.items(), key=lambda kv: kv[0] or ""):
        viol.append({"unit": "e2e", "clause": "bounded.e2e." + prop.lower() + ("." + cls if cls else ""), "message": "the real scrut binary, run on a generated document, contradicts the statement",
                     "fn": None, "rendered": b["why"][:1500], "clause_text": "scrut test -r json + exit status", "where": "vx/e2e.py",
                     "enum": {"cmd": ["e2e", prop], "case": b}})
    return {"coverage": {"label": "BOUNDED end-to-end run of the real binary (not counted as discharged)", "binary": "cargo build --bin scrut from the working tree",
                         "documents_run": cases, "failing": len(bad), "bounded": True}, "violations": viol}


if __name__ == "__main__":
    import sys
    print(json.dumps(run(sys.argv[1], len(sys.argv) > 2), indent=1)[:6000])
