//! vxspan: dump a span-annotated syntax skeleton of a Rust source file as JSON.
//!
//! The extractor (../vx.py) never pretty-prints code: it copies bytes of the original file and
//! splices text at byte offsets that come from this tool.  Every node is
//!   {"k": kind, "r": role-in-parent, "s": start_byte, "e": end_byte, "a": {attrs}, "c": [children]}
//! Byte offsets are offsets into the file as read (UTF-8).
use proc_macro2::Span;
use std::fmt::Write as _;
use syn::punctuated::Punctuated;
use syn::spanned::Spanned;
use syn::*;

struct Node {
    k: &'static str,
    r: &'static str,
    s: usize,
    e: usize,
    a: Vec<(&'static str, String)>,
    c: Vec<Node>,
}

struct Cx {
    /// byte offset of the start of each line
    line_starts: Vec<usize>,
    src: String,
}

impl Cx {
    fn off(&self, lc: proc_macro2::LineColumn) -> usize {
        // column is in chars; convert to bytes
        let ls = self.line_starts[lc.line - 1];
        let line = &self.src[ls..];
        let mut b = 0usize;
        for (n, ch) in line.chars().enumerate() {
            if n == lc.column {
                break;
            }
            b += ch.len_utf8();
        }
        ls + b
    }
    fn range(&self, sp: Span) -> (usize, usize) {
        (self.off(sp.start()), self.off(sp.end()))
    }
    fn node<T: Spanned>(&self, k: &'static str, r: &'static str, t: &T) -> Node {
        let (s, e) = self.range(t.span());
        Node { k, r, s, e, a: vec![], c: vec![] }
    }
    fn text<T: Spanned>(&self, t: &T) -> String {
        let (s, e) = self.range(t.span());
        self.src[s..e].to_string()
    }
}

fn esc(s: &str, out: &mut String) {
    out.push('"');
    for ch in s.chars() {
        match ch {
            '"' => out.push_str("\\\""),
            '\\' => out.push_str("\\\\"),
            '\n' => out.push_str("\\n"),
            '\r' => out.push_str("\\r"),
            '\t' => out.push_str("\\t"),
            c if (c as u32) < 0x20 => {
                let _ = write!(out, "\\u{:04x}", c as u32);
            }
            c => out.push(c),
        }
    }
    out.push('"');
}

fn dump(n: &Node, out: &mut String) {
    let _ = write!(out, "{{\"k\":\"{}\",\"r\":\"{}\",\"s\":{},\"e\":{}", n.k, n.r, n.s, n.e);
    if !n.a.is_empty() {
        out.push_str(",\"a\":{");
        for (i, (k, v)) in n.a.iter().enumerate() {
            if i > 0 {
                out.push(',');
            }
            esc(k, out);
            out.push(':');
            esc(v, out);
        }
        out.push('}');
    }
    if !n.c.is_empty() {
        out.push_str(",\"c\":[");
        for (i, c) in n.c.iter().enumerate() {
            if i > 0 {
                out.push(',');
            }
            dump(c, out);
        }
        out.push(']');
    }
    out.push('}');
}

fn attrs(cx: &Cx, v: &[Attribute], n: &mut Node) {
    for a in v {
        let mut an = cx.node("Attr", "attr", a);
        an.a.push(("path", cx.text(a.path())));
        n.c.push(an);
    }
}

fn pat(cx: &Cx, p: &Pat, r: &'static str) -> Node {
    let k = match p {
        Pat::Ident(_) => "PatIdent",
        Pat::Tuple(_) => "PatTuple",
        Pat::TupleStruct(_) => "PatTupleStruct",
        Pat::Struct(_) => "PatStruct",
        Pat::Path(_) => "PatPath",
        Pat::Wild(_) => "PatWild",
        Pat::Lit(_) => "PatLit",
        Pat::Or(_) => "PatOr",
        Pat::Reference(_) => "PatReference",
        Pat::Type(_) => "PatType",
        Pat::Range(_) => "PatRange",
        Pat::Slice(_) => "PatSlice",
        Pat::Rest(_) => "PatRest",
        _ => "PatOther",
    };
    let mut n = cx.node(k, r, p);
    match p {
        Pat::Ident(pi) => {
            n.a.push(("ident", pi.ident.to_string()));
            if pi.mutability.is_some() {
                n.a.push(("mut", "1".into()));
            }
        }
        Pat::Type(pt) => {
            n.c.push(pat(cx, &pt.pat, "pat"));
            n.c.push(cx.node("Type", "ty", &*pt.ty));
        }
        Pat::TupleStruct(ts) => {
            n.a.push(("path", cx.text(&ts.path)));
            for e in &ts.elems {
                n.c.push(pat(cx, e, "elem"));
            }
        }
        Pat::Tuple(t) => {
            for e in &t.elems {
                n.c.push(pat(cx, e, "elem"));
            }
        }
        Pat::Reference(rf) => n.c.push(pat(cx, &rf.pat, "pat")),
        Pat::Path(pp) => n.a.push(("path", cx.text(&pp.path))),
        Pat::Struct(ps) => n.a.push(("path", cx.text(&ps.path))),
        _ => {}
    }
    n
}

fn block(cx: &Cx, b: &Block, r: &'static str) -> Node {
    let mut n = cx.node("Block", r, b);
    for s in &b.stmts {
        n.c.push(stmt(cx, s));
    }
    n
}

fn mac(cx: &Cx, m: &Macro, n: &mut Node) {
    n.a.push(("mac", cx.text(&m.path)));
    // the token stream's extent (inside the delimiters)
    let (ds, de) = cx.range(m.delimiter.span().join());
    n.a.push(("delim_s", ds.to_string()));
    n.a.push(("delim_e", de.to_string()));
    if let Ok(args) = m.parse_body_with(Punctuated::<Expr, Token![,]>::parse_terminated) {
        for a in &args {
            n.c.push(expr(cx, a, "macarg"));
        }
    } else {
        n.a.push(("unparsed", "1".into()));
    }
}

fn stmt(cx: &Cx, s: &Stmt) -> Node {
    match s {
        Stmt::Local(l) => {
            let mut n = cx.node("Local", "stmt", l);
            attrs(cx, &l.attrs, &mut n);
            n.c.push(pat(cx, &l.pat, "pat"));
            if let Some(init) = &l.init {
                n.c.push(expr(cx, &init.expr, "init"));
                if let Some((_, d)) = &init.diverge {
                    n.c.push(expr(cx, d, "diverge"));
                }
            }
            n
        }
        Stmt::Item(i) => {
            let mut n = item(cx, i);
            n.r = "stmt";
            n
        }
        Stmt::Expr(e, semi) => {
            let mut n = cx.node("StmtExpr", "stmt", s);
            if semi.is_some() {
                n.a.push(("semi", "1".into()));
            }
            n.c.push(expr(cx, e, "expr"));
            n
        }
        Stmt::Macro(m) => {
            let mut n = cx.node("StmtMacro", "stmt", s);
            attrs(cx, &m.attrs, &mut n);
            mac(cx, &m.mac, &mut n);
            n
        }
    }
}

fn expr(cx: &Cx, e: &Expr, r: &'static str) -> Node {
    macro_rules! n {
        ($k:expr) => {
            cx.node($k, r, e)
        };
    }
    match e {
        Expr::Array(x) => {
            let mut n = n!("Array");
            for el in &x.elems {
                n.c.push(expr(cx, el, "elem"));
            }
            n
        }
        Expr::Assign(x) => {
            let mut n = n!("Assign");
            n.c.push(expr(cx, &x.left, "left"));
            n.c.push(expr(cx, &x.right, "right"));
            n
        }
        Expr::Binary(x) => {
            let mut n = n!("Binary");
            n.a.push(("op", cx.text(&x.op)));
            n.c.push(expr(cx, &x.left, "left"));
            n.c.push(expr(cx, &x.right, "right"));
            n
        }
        Expr::Block(x) => {
            let mut n = n!("ExprBlock");
            n.c.push(block(cx, &x.block, "block"));
            n
        }
        Expr::Break(x) => {
            let mut n = n!("Break");
            if let Some(v) = &x.expr {
                n.c.push(expr(cx, v, "value"));
            }
            n
        }
        Expr::Call(x) => {
            let mut n = n!("Call");
            n.a.push(("func", cx.text(&*x.func)));
            n.c.push(expr(cx, &x.func, "func"));
            for a in &x.args {
                n.c.push(expr(cx, a, "arg"));
            }
            n
        }
        Expr::Cast(x) => {
            let mut n = n!("Cast");
            n.a.push(("ty", cx.text(&*x.ty)));
            n.c.push(expr(cx, &x.expr, "expr"));
            n
        }
        Expr::Closure(x) => {
            let mut n = n!("Closure");
            if x.capture.is_some() {
                n.a.push(("move", "1".into()));
            }
            for p in &x.inputs {
                n.c.push(pat(cx, p, "input"));
            }
            if let ReturnType::Type(_, t) = &x.output {
                n.c.push(cx.node("Type", "output", &**t));
            }
            n.c.push(expr(cx, &x.body, "body"));
            n
        }
        Expr::Continue(_) => n!("Continue"),
        Expr::Field(x) => {
            let mut n = n!("Field");
            n.a.push(("member", cx.text(&x.member)));
            n.c.push(expr(cx, &x.base, "base"));
            n
        }
        Expr::ForLoop(x) => {
            let mut n = n!("ForLoop");
            n.c.push(pat(cx, &x.pat, "pat"));
            n.c.push(expr(cx, &x.expr, "iter"));
            n.c.push(block(cx, &x.body, "body"));
            n
        }
        Expr::Group(x) => expr(cx, &x.expr, r),
        Expr::If(x) => {
            let mut n = n!("If");
            n.c.push(expr(cx, &x.cond, "cond"));
            n.c.push(block(cx, &x.then_branch, "then"));
            if let Some((_, el)) = &x.else_branch {
                n.c.push(expr(cx, el, "else"));
            }
            n
        }
        Expr::Index(x) => {
            let mut n = n!("Index");
            n.c.push(expr(cx, &x.expr, "base"));
            n.c.push(expr(cx, &x.index, "index"));
            n
        }
        Expr::Let(x) => {
            let mut n = n!("Let");
            n.c.push(pat(cx, &x.pat, "pat"));
            n.c.push(expr(cx, &x.expr, "expr"));
            n
        }
        Expr::Lit(x) => {
            let mut n = n!("Lit");
            n.a.push(("lit", cx.text(&x.lit)));
            n
        }
        Expr::Loop(x) => {
            let mut n = n!("Loop");
            n.c.push(block(cx, &x.body, "body"));
            n
        }
        Expr::Macro(x) => {
            let mut n = n!("Macro");
            mac(cx, &x.mac, &mut n);
            n
        }
        Expr::Match(x) => {
            let mut n = n!("Match");
            n.c.push(expr(cx, &x.expr, "scrutinee"));
            for a in &x.arms {
                let mut an = cx.node("Arm", "arm", a);
                an.c.push(pat(cx, &a.pat, "pat"));
                if let Some((_, g)) = &a.guard {
                    an.c.push(expr(cx, g, "guard"));
                }
                an.c.push(expr(cx, &a.body, "body"));
                n.c.push(an);
            }
            n
        }
        Expr::MethodCall(x) => {
            let mut n = n!("MethodCall");
            n.a.push(("method", x.method.to_string()));
            let (ms, me) = cx.range(x.method.span());
            n.a.push(("method_s", ms.to_string()));
            n.a.push(("method_e", me.to_string()));
            if let Some(t) = &x.turbofish {
                n.a.push(("turbofish", cx.text(t)));
            }
            n.c.push(expr(cx, &x.receiver, "receiver"));
            for a in &x.args {
                n.c.push(expr(cx, a, "arg"));
            }
            n
        }
        Expr::Paren(x) => {
            let mut n = n!("Paren");
            n.c.push(expr(cx, &x.expr, "expr"));
            n
        }
        Expr::Path(x) => {
            let mut n = n!("Path");
            n.a.push(("path", cx.text(&x.path)));
            n
        }
        Expr::Range(x) => {
            let mut n = n!("Range");
            n.a.push((
                "limits",
                match x.limits {
                    RangeLimits::HalfOpen(_) => "..".into(),
                    RangeLimits::Closed(_) => "..=".into(),
                },
            ));
            if let Some(s) = &x.start {
                n.c.push(expr(cx, s, "start"));
            }
            if let Some(s) = &x.end {
                n.c.push(expr(cx, s, "end"));
            }
            n
        }
        Expr::Reference(x) => {
            let mut n = n!("Reference");
            if x.mutability.is_some() {
                n.a.push(("mut", "1".into()));
            }
            n.c.push(expr(cx, &x.expr, "expr"));
            n
        }
        Expr::Repeat(x) => {
            let mut n = n!("Repeat");
            n.c.push(expr(cx, &x.expr, "expr"));
            n.c.push(expr(cx, &x.len, "len"));
            n
        }
        Expr::Return(x) => {
            let mut n = n!("Return");
            if let Some(v) = &x.expr {
                n.c.push(expr(cx, v, "value"));
            }
            n
        }
        Expr::Struct(x) => {
            let mut n = n!("Struct");
            n.a.push(("path", cx.text(&x.path)));
            for f in &x.fields {
                let mut fnode = cx.node("FieldValue", "field", f);
                fnode.a.push(("member", cx.text(&f.member)));
                if f.colon_token.is_none() {
                    fnode.a.push(("shorthand", "1".into()));
                }
                fnode.c.push(expr(cx, &f.expr, "value"));
                n.c.push(fnode);
            }
            if let Some(rest) = &x.rest {
                n.c.push(expr(cx, rest, "rest"));
            }
            n
        }
        Expr::Try(x) => {
            let mut n = n!("Try");
            n.c.push(expr(cx, &x.expr, "expr"));
            n
        }
        Expr::Tuple(x) => {
            let mut n = n!("Tuple");
            for el in &x.elems {
                n.c.push(expr(cx, el, "elem"));
            }
            n
        }
        Expr::Unary(x) => {
            let mut n = n!("Unary");
            n.a.push(("op", cx.text(&x.op)));
            n.c.push(expr(cx, &x.expr, "expr"));
            n
        }
        Expr::Unsafe(x) => {
            let mut n = n!("Unsafe");
            n.c.push(block(cx, &x.block, "block"));
            n
        }
        Expr::While(x) => {
            let mut n = n!("While");
            n.c.push(expr(cx, &x.cond, "cond"));
            n.c.push(block(cx, &x.body, "body"));
            n
        }
        _ => n!("ExprOther"),
    }
}

fn sig(cx: &Cx, s: &Signature, n: &mut Node) {
    n.a.push(("ident", s.ident.to_string()));
    let mut sn = cx.node("Sig", "sig", s);
    if !s.generics.params.is_empty() {
        sn.a.push(("generics", cx.text(&s.generics)));
    }
    for i in &s.inputs {
        match i {
            FnArg::Receiver(rc) => {
                let mut a = cx.node("Receiver", "input", rc);
                a.a.push(("text", cx.text(rc)));
                sn.c.push(a);
            }
            FnArg::Typed(pt) => {
                let mut a = cx.node("FnArg", "input", pt);
                a.c.push(pat(cx, &pt.pat, "pat"));
                let mut t = cx.node("Type", "ty", &*pt.ty);
                t.a.push(("text", cx.text(&*pt.ty)));
                a.c.push(t);
                sn.c.push(a);
            }
        }
    }
    if let ReturnType::Type(_, t) = &s.output {
        let mut tn = cx.node("Type", "output", &**t);
        tn.a.push(("text", cx.text(&**t)));
        sn.c.push(tn);
    }
    n.c.push(sn);
}

fn fields(cx: &Cx, f: &Fields, n: &mut Node) {
    for fd in f.iter() {
        let mut fnode = cx.node("FieldDef", "field", fd);
        attrs(cx, &fd.attrs, &mut fnode);
        if let Some(id) = &fd.ident {
            fnode.a.push(("ident", id.to_string()));
        }
        let mut t = cx.node("Type", "ty", &fd.ty);
        t.a.push(("text", cx.text(&fd.ty)));
        fnode.c.push(t);
        if !matches!(fd.vis, Visibility::Inherited) {
            fnode.a.push(("vis", cx.text(&fd.vis)));
        }
        n.c.push(fnode);
    }
}

fn item(cx: &Cx, i: &Item) -> Node {
    match i {
        Item::Fn(f) => {
            let mut n = cx.node("Fn", "item", f);
            attrs(cx, &f.attrs, &mut n);
            sig(cx, &f.sig, &mut n);
            n.c.push(block(cx, &f.block, "body"));
            n
        }
        Item::Impl(im) => {
            let mut n = cx.node("Impl", "item", im);
            attrs(cx, &im.attrs, &mut n);
            n.a.push(("self_ty", cx.text(&*im.self_ty)));
            if let Some((_, p, _)) = &im.trait_ {
                n.a.push(("trait", cx.text(p)));
            }
            if !im.generics.params.is_empty() {
                n.a.push(("generics", cx.text(&im.generics)));
            }
            let (bs, be) = cx.range(im.brace_token.span.join());
            n.a.push(("brace_s", bs.to_string()));
            n.a.push(("brace_e", be.to_string()));
            for it in &im.items {
                match it {
                    ImplItem::Fn(f) => {
                        let mut m = cx.node("Fn", "implitem", f);
                        attrs(cx, &f.attrs, &mut m);
                        sig(cx, &f.sig, &mut m);
                        m.c.push(block(cx, &f.block, "body"));
                        n.c.push(m);
                    }
                    other => n.c.push(cx.node("ImplItemOther", "implitem", other)),
                }
            }
            n
        }
        Item::Struct(s) => {
            let mut n = cx.node("StructDef", "item", s);
            attrs(cx, &s.attrs, &mut n);
            n.a.push(("ident", s.ident.to_string()));
            fields(cx, &s.fields, &mut n);
            n
        }
        Item::Enum(e) => {
            let mut n = cx.node("EnumDef", "item", e);
            attrs(cx, &e.attrs, &mut n);
            n.a.push(("ident", e.ident.to_string()));
            for v in &e.variants {
                let mut vn = cx.node("Variant", "variant", v);
                attrs(cx, &v.attrs, &mut vn);
                vn.a.push(("ident", v.ident.to_string()));
                fields(cx, &v.fields, &mut vn);
                n.c.push(vn);
            }
            n
        }
        Item::Mod(m) => {
            let mut n = cx.node("Mod", "item", m);
            attrs(cx, &m.attrs, &mut n);
            n.a.push(("ident", m.ident.to_string()));
            if let Some((_, items)) = &m.content {
                for it in items {
                    n.c.push(item(cx, it));
                }
            }
            n
        }
        Item::Trait(t) => {
            let mut n = cx.node("Trait", "item", t);
            n.a.push(("ident", t.ident.to_string()));
            for it in &t.items {
                if let TraitItem::Fn(f) = it {
                    let mut m = cx.node("Fn", "traititem", f);
                    attrs(cx, &f.attrs, &mut m);
                    sig(cx, &f.sig, &mut m);
                    if let Some(b) = &f.default {
                        m.c.push(block(cx, b, "body"));
                    }
                    n.c.push(m);
                }
            }
            n
        }
        Item::Macro(m) => {
            let mut n = cx.node("ItemMacro", "item", m);
            n.a.push(("mac", cx.text(&m.mac.path)));
            n
        }
        Item::Const(c) => {
            let mut n = cx.node("Const", "item", c);
            n.a.push(("ident", c.ident.to_string()));
            n.c.push(expr(cx, &c.expr, "value"));
            n
        }
        Item::Static(c) => {
            let mut n = cx.node("Static", "item", c);
            n.a.push(("ident", c.ident.to_string()));
            n
        }
        Item::Use(u) => cx.node("Use", "item", u),
        Item::Type(t) => {
            let mut n = cx.node("TypeAlias", "item", t);
            n.a.push(("ident", t.ident.to_string()));
            n
        }
        other => cx.node("ItemOther", "item", other),
    }
}

fn main() {
    let path = std::env::args().nth(1).expect("usage: vxspan <file.rs>");
    let src = std::fs::read_to_string(&path).expect("read");
    let mut line_starts = vec![0usize];
    for (i, b) in src.bytes().enumerate() {
        if b == b'\n' {
            line_starts.push(i + 1);
        }
    }
    let file = match syn::parse_file(&src) {
        Ok(f) => f,
        Err(e) => {
            eprintln!("vxspan: parse error in {}: {}", path, e);
            std::process::exit(3);
        }
    };
    let cx = Cx { line_starts, src };
    let mut root = Node { k: "File", r: "root", s: 0, e: cx.src.len(), a: vec![], c: vec![] };
    for it in &file.items {
        root.c.push(item(&cx, it));
    }
    let mut out = String::new();
    dump(&root, &mut out);
    println!("{}", out);
}
