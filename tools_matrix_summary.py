#!/usr/bin/env python3
"""summary of seeded/RESULTS.json for DESIGN §11: how many changes are caught by the check of the property they aim at, by another check only, end inconclusive, or pass everything"""
import json, sys
r = json.load(open(sys.argv[1] if len(sys.argv) > 1 else "/verif/seeded/RESULTS.json"))
own, other, inc, missed, invalid = [], [], [], [], []
for s, row in sorted(r.items()):
    if "checks" not in row:
        invalid.append(s); continue
    t = row["target"]; ch = row["checks"]
    if any("INVALID ROW" in v.get("line", "") for v in ch.values()):
        invalid.append(s); continue
    viol = [p for p, v in ch.items() if v["exit"] == 1]
    incs = [p for p, v in ch.items() if v["exit"] == 2]
    if t in viol: own.append((s, [p for p in viol if p != t]))
    elif viol: other.append((s, viol, t in incs))
    elif incs: inc.append((s, incs))
    else: missed.append(s)
n = len(r)
print(f"{n} changes: own-target VIOLATION {len(own)}; other check only {len(other)}; inconclusive only {len(inc)}; pass everything {len(missed)}; invalid rows {len(invalid)}")
print("other only:", [(s, v, "own INC" if i else "own pass") for s, v, i in other])
print("inconclusive only:", inc)
print("missed:", missed)
print("invalid:", invalid)
