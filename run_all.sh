#!/bin/bash
# run every claimed check on /repo's current tree (quick by default); refreshes evidence/*.json
# exits non-zero unless every check exits 0 — use `./run_all.sh && git commit ...`
T=${1:-quick}
cd /verif
rc=0
for p in $(python3 -c "import json;print(' '.join(c['property_id'] for c in json.load(open('MANIFEST.json'))['checks']))"); do
  out=$(./check $p --tier $T); e=$?
  echo "$out" | grep -v "^KNOWN-FINDING" | tail -1
  [ $e -ne 0 ] && rc=1
done
[ $rc -ne 0 ] && echo "run_all: AT LEAST ONE CHECK DID NOT PASS"
exit $rc
