#!/bin/bash
# run every claimed check on /repo's current tree (quick by default); refreshes evidence/*.json
T=${1:-quick}
cd /verif
for p in $(python3 -c "import json;print(' '.join(c['property_id'] for c in json.load(open('MANIFEST.json'))['checks']))"); do
  ./check $p --tier $T | tail -1
done
