#!/usr/bin/env python3
"""writes MANIFEST.json from contracts/registry.py (single source of truth)"""
import json, os, sys
sys.path.insert(0, os.path.join(os.path.dirname(os.path.abspath(__file__)), "contracts"))
from registry import REG, NOT_APPLICABLE, LEVELS

checks = []
for pid in sorted(k for k in REG if not k.startswith("_")):
    r = REG[pid]
    lv = LEVELS[pid]
    checks.append({
        "property_id": pid,
        "quick_cmd": f"./check {pid} --tier quick",
        "thorough_cmd": f"./check {pid} --tier thorough",
        "evidence_file": f"/verif/evidence/{pid}.json",
        "replay_cmd_template": f"./check {pid} --replay {{path}}",
        "engine": "vx",
        "level_claimed": {"category": lv["category"], "text": lv["text"], "design_ref": lv.get("design_ref", "DESIGN.md §5")},
        "level_note": lv["note"],
        "technique": lv["technique"],
    })
m = {
    "version": 1,
    "setup_cmd": "cd /verif/vx/vxspan && CARGO_NET_OFFLINE=true cargo build --offline 2>&1 | tail -3 && cd /verif/replay && CARGO_NET_OFFLINE=true cargo build --offline 2>&1 | tail -1 && cd /verif && CARGO_NET_OFFLINE=true CARGO_TARGET_DIR=/verif/build/scrutbin cargo build --offline --bin scrut --manifest-path /repo/Cargo.toml 2>&1 | tail -1",
    "hooks": {
        "guard": "cfg(kani)",
        "enable": "set only by the Kani compiler (cargo kani); engine VX (Verus) needs no hook: it reads /repo's sources",
        "baseline_off_cmd": "cd /repo && cargo nextest run --workspace --no-fail-fast --tool-config-file pb:/w/lib/nextest.toml --profile pb --test-threads 8 --offline",
        "source_commits": [],
        "add_only": True,
    },
    "engines": [
        {"name": "vx", "path": "/verif/vx", "serves_properties": sorted(k for k in REG if not k.startswith("_")),
         "kind_free_text": "contract-based deductive verification: real functions extracted from /repo by syn spans on every run, "
                           "sidecar requires/ensures/invariants spliced in, discharged by Verus 0.2026.09.13 (Z3)"},
        {"name": "kx", "path": "/verif/vx/kx.py", "serves_properties": ["C05", "C14"],
         "kind_free_text": "Kani 0.68 / CBMC on items extracted into a scratch crate: loop-free harnesses over full symbolic domains (complete, not bounded)"},
        {"name": "replay", "path": "/verif/replay", "serves_properties": sorted(k for k in REG if not k.startswith("_")),
         "kind_free_text": "BOUNDED enumerators over the real crate (path dependency on /repo), some over real bash processes: cross-checks of assumed dependency contracts and "
                           "stand-ins for what no contract reaches; labelled bounded in the evidence, never counted as discharged; a failing input is a violation with that input as replay"},
        {"name": "e2e", "path": "/verif/vx/e2e.py", "serves_properties": ["C05", "C14", "C15"],
         "kind_free_text": "BOUNDED end-to-end runs of the real scrut binary (built from the working tree) on generated documents: the accounting in src/bin/commands/test.rs"},
    ],
    "checks": checks,
    "not_applicable": NOT_APPLICABLE,
    "notes": "exit 2 = INCONCLUSIVE (lost anchor, unsupported construct, resource limit): never an alarm. Known findings and fixed defects: /verif/known_findings.json (14 open findings, each printed as a KNOWN-FINDING line by its check; 33 fix: commits in /repo). See DESIGN.md, in particular the closing paragraph of §6 on what a PASS decides.",
}
json.dump(m, open(os.path.join(os.path.dirname(os.path.abspath(__file__)), "MANIFEST.json"), "w"), indent=1)
print("MANIFEST.json written:", len(checks), "checks,", len(NOT_APPLICABLE), "not applicable")
