#!/bin/bash
# tools_store_round.sh <round> <prop>...: store the outputs of a finished sub-agent round (/tmp/out<round>-<prop>/{a,b}) as seeded/R<round>-<prop>-<v>,
# remove the agent's worktree, confirm each change on /repo's HEAD with tools_confirm_seed.sh
r=$1; shift
for p in "$@"; do
  git -C /repo worktree remove --force /tmp/wt$r-$p 2>/dev/null
  for v in a b; do
    [ -f /tmp/out$r-$p/$v/patch.diff ] || continue
    d=/verif/seeded/R$r-$p-$v; mkdir -p $d
    cp /tmp/out$r-$p/$v/patch.diff /tmp/out$r-$p/$v/meta.json $d/
    [ -f /tmp/out$r-$p/$v/demo.rs ] && cp /tmp/out$r-$p/$v/demo.rs $d/
    [ -f /tmp/out$r-$p/$v/demo_test.rs ] && cp /tmp/out$r-$p/$v/demo_test.rs $d/
    res=$(/verif/tools_confirm_seed.sh $d 2>&1 | grep RESULT)
    echo "$d $res"
    python3 - "$d" "$r" "$res" <<'PY'
import json,sys,subprocess
d,r,res=sys.argv[1:4]
m=json.load(open(d+'/meta.json'))
head=subprocess.run(['git','-C','/repo','rev-parse','--short','HEAD'],capture_output=True,text=True).stdout.strip()
m['origin']=f'round {r}: independent sub-agent given only the property text and a scratch worktree on /repo HEAD {head}'
m['confirmed_by_me']={'script':'/verif/tools_confirm_seed.sh','on_commit':head,'result':res}
json.dump(m,open(d+'/meta.json','w'),indent=1)
PY
  done
done
