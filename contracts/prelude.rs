// ---- prelude: shims for dependency types and assumed std specifications -------------------------
// Everything in this file is TRUSTED (listed in evidence.trusted_base by the mechanical scan).

// anyhow: only the type identity matters; message text is outside every property (rule R8)
pub mod anyhow {
    #[verifier::external_body]
    pub struct Error { _p: () }
    pub type Result<T, E = Error> = core::result::Result<T, E>;
    // R8: anyhow!(..) / bail!(..): some error value; its message is not part of any property
    #[verifier::external_body]
    pub fn __opaque_error() -> Error { unimplemented!() }
}
use anyhow::Result;

// R9: `Box<dyn Rule>` -> opaque DynRule. `matches` is a pure function of (rule, line): that is the
// one fact assumed about every Rule implementation (checked per implementation under C04).
#[verifier::external_body]
pub struct DynRule { _p: () }
pub uninterp spec fn rule_matches(r: DynRule, line: Seq<u8>) -> bool;
impl DynRule {
    #[verifier::external_body]
    pub fn matches(&self, line: &[u8]) -> (r: bool)
        ensures r == rule_matches(*self, line@)
    { unimplemented!() }
}

pub assume_specification<T> [<[T] as std::borrow::ToOwned>::to_owned] (s: &[T]) -> (r: std::vec::Vec<T>)
    where T: std::clone::Clone
    ensures r@ == s@;

// R14: Extend<T> for Vec<T> appends the items of the argument in order
#[verifier::external_body]
pub fn __vec_extend<T>(v: &mut Vec<T>, it: Vec<T>)
    ensures final(v)@ == old(v)@ + it@
{ v.extend(it) }

