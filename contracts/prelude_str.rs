// ---- prelude for string-processing units (C04, C11). TRUSTED.
use vstd::std_specs::iter::IteratorSpec;
broadcast use vstd::laws_eq::group_laws_eq;
use vstd::utf8::*;

// R21: String: FromIterator<char> concatenates the chars in order
#[verifier::external_body]
pub fn __string_from_chars(v: Vec<char>) -> (r: String) ensures r@ == v@ { v.into_iter().collect() }
// R22: char::encode_utf8(buf).as_bytes() is the UTF-8 encoding of the single char
#[verifier::external_body]
pub fn __encode_utf8_bytes<'a>(c: char, buf: &'a mut [u8; 4]) -> (r: &'a [u8]) ensures r@ == encode_utf8(seq![c]) { c.encode_utf8(buf).as_bytes() }
#[verifier::external_body]
pub fn __vec_extend_slice<T: Clone>(v: &mut Vec<T>, it: &[T]) ensures final(v)@ == old(v)@ + it@ { v.extend_from_slice(it) }

// u8::from_str_radix: modelled by an uninterpreted function of (text, radix); the only fact assumed about it is its
// value on two-digit strings (validated exhaustively against the real function by the thorough tier, 2 x 256 cases)
#[verifier::external_type_specification]
#[verifier::external_body]
pub struct ExParseIntError(core::num::ParseIntError);
pub uninterp spec fn radix_u8(s: Seq<char>, radix: u32) -> Option<u8>;
pub assume_specification [u8::from_str_radix] (src: &str, radix: u32) -> (r: core::result::Result<u8, core::num::ParseIntError>)
    ensures (r is Ok) == (radix_u8(src@, radix) is Some), r is Ok ==> r->Ok_0 == radix_u8(src@, radix)->0;
// `c.to_string()` for a char is the one-char string
#[verifier::external_body]
pub fn __char_to_string(c: char) -> (r: String) ensures r@ == seq![c] { c.to_string() }
// R18: `Cow<'_, [u8]>` is replaced by `Vec<u8>` (same byte content; borrowing vs owning is dropped)
#[verifier::external_body]
pub fn __cow_borrowed(x: &[u8]) -> (r: Vec<u8>) ensures r@ == x@ { x.to_vec() }
pub fn __cow_owned(x: Vec<u8>) -> (r: Vec<u8>) ensures r@ == x@ { x }
pub assume_specification<T> [<[T]>::to_vec] (s: &[T]) -> (r: std::vec::Vec<T>)
    where T: core::clone::Clone
    ensures r@ == s@;
pub assume_specification [String::as_bytes] (s: &String) -> (r: &[u8]) ensures r@ == encode_utf8(s@);
// R19: `Cow<[u8]> == &[u8]` (Cow is modelled as Vec<u8>, R18) compares the byte contents
#[verifier::external_body]
pub fn __cow_eq_slice(a: Vec<u8>, b: &[u8]) -> (r: bool) ensures r == (a@ == b@) { &a[..] == b }

// ---- regex / wildmatch crates: opaque types whose matching semantics is ASSUMED (uninterpreted languages).
// What the proofs establish is which pattern text and which candidate bytes scrut hands to them.
#[verifier::external_body]
pub struct ByteRegex { _p: () }
pub type Regex = ByteRegex;
pub uninterp spec fn regex_lang(pattern: Seq<char>, candidate: Seq<u8>) -> bool;
/// the text is a regular expression (the regex crate compiles it)
pub uninterp spec fn regex_valid(pattern: Seq<char>) -> bool;
impl ByteRegex {
    pub uninterp spec fn pattern(&self) -> Seq<char>;
    #[verifier::external_body]
    pub fn new(p: &str) -> (r: anyhow::Result<ByteRegex>) ensures (r is Ok) == regex_valid(p@), r is Ok ==> r->Ok_0.pattern() == p@ { unimplemented!() }
    #[verifier::external_body]
    pub fn is_match(&self, haystack: &[u8]) -> (r: bool) ensures r == regex_lang(self.pattern(), haystack@) { unimplemented!() }
}
#[verifier::external_body]
pub struct WildMatch { _p: () }
pub uninterp spec fn wild_lang(pattern: Seq<char>, candidate: Seq<char>) -> bool;
impl WildMatch {
    pub uninterp spec fn pattern(&self) -> Seq<char>;
    #[verifier::external_body]
    pub fn new(p: &str) -> (r: WildMatch) ensures r.pattern() == p@ { unimplemented!() }
    #[verifier::external_body]
    pub fn matches(&self, input: &str) -> (r: bool) ensures r == wild_lang(self.pattern(), input@) { unimplemented!() }
}
// String::from_utf8_lossy(..).to_string()  (macro lossy_string!)
pub uninterp spec fn lossy(b: Seq<u8>) -> Seq<char>;
#[verifier::external_body]
pub fn __lossy(b: &[u8]) -> (r: String) ensures r@ == lossy(b@) { String::from_utf8_lossy(b).to_string() }

// ---- R28: str predicates with a literal argument (std's versions are generic over the unstable `Pattern` trait)
pub open spec fn is_prefix_of(p: Seq<char>, s: Seq<char>) -> bool { p.len() <= s.len() && s.subrange(0, p.len() as int) == p }
pub open spec fn is_suffix_of(p: Seq<char>, s: Seq<char>) -> bool { p.len() <= s.len() && s.subrange(s.len() - p.len(), s.len() as int) == p }
#[verifier::external_body]
pub fn __str_starts_with_char(s: &str, c: char) -> (r: bool) ensures r == (s@.len() > 0 && s@[0] == c) { s.starts_with(c) }
#[verifier::external_body]
pub fn __str_ends_with_char(s: &str, c: char) -> (r: bool) ensures r == (s@.len() > 0 && s@.last() == c) { s.ends_with(c) }
#[verifier::external_body]
pub fn __str_starts_with_str(s: &str, p: &str) -> (r: bool) ensures r == is_prefix_of(p@, s@) { s.starts_with(p) }
#[verifier::external_body]
pub fn __str_ends_with_str(s: &str, p: &str) -> (r: bool) ensures r == is_suffix_of(p@, s@) { s.ends_with(p) }
#[verifier::external_body]
pub fn __str_strip_prefix_str<'a>(s: &'a str, p: &str) -> (r: Option<&'a str>)
    ensures r is Some == is_prefix_of(p@, s@), r is Some ==> r->0@ == s@.subrange(p@.len() as int, s@.len() as int) { s.strip_prefix(p) }
#[verifier::external_body]
pub fn __str_strip_suffix_str<'a>(s: &'a str, p: &str) -> (r: Option<&'a str>)
    ensures r is Some == is_suffix_of(p@, s@), r is Some ==> r->0@ == s@.subrange(0, s@.len() - p@.len()) { s.strip_suffix(p) }
#[verifier::external_body]
pub fn __str_strip_suffix_char<'a>(s: &'a str, c: char) -> (r: Option<&'a str>)
    ensures r is Some == (s@.len() > 0 && s@.last() == c), r is Some ==> r->0@ == s@.drop_last() { s.strip_suffix(c) }
#[verifier::external_body]
pub fn __str_strip_prefix_char<'a>(s: &'a str, c: char) -> (r: Option<&'a str>)
    ensures r is Some == (s@.len() > 0 && s@[0] == c), r is Some ==> r->0@ == s@.skip(1) { s.strip_prefix(c) }
// whitespace trimming: the exact White_Space set is not modelled; the result is a sub-range of the input
pub uninterp spec fn str_trim_end(s: Seq<char>) -> Seq<char>;
pub uninterp spec fn str_trim_start(s: Seq<char>) -> Seq<char>;
pub uninterp spec fn str_trim(s: Seq<char>) -> Seq<char>;
pub assume_specification [str::trim_end] (s: &str) -> (r: &str) ensures r@ == str_trim_end(s@), is_prefix_of(r@, s@);
pub assume_specification [str::trim_start] (s: &str) -> (r: &str) ensures r@ == str_trim_start(s@), is_suffix_of(r@, s@);
pub assume_specification [str::trim] (s: &str) -> (r: &str) ensures r@ == str_trim(s@), r@.len() <= s@.len();

// String::from_utf8: Ok exactly on valid UTF-8, and then the string's encoding is the input
#[verifier::external_type_specification]
#[verifier::external_body]
pub struct ExFromUtf8Error(std::string::FromUtf8Error);
pub assume_specification [String::from_utf8] (v: Vec<u8>) -> (r: core::result::Result<String, std::string::FromUtf8Error>)
    ensures (r is Ok) == valid_utf8(v@), r is Ok ==> encode_utf8(r->Ok_0@) == v@;
// unicode_categories::UnicodeCategories::is_other (general categories Cc, Cf, Cn, Co, Cs): uninterpreted
pub uninterp spec fn is_other(c: char) -> bool;
#[verifier::external_body]
pub fn __is_other(c: char) -> (r: bool) ensures r == is_other(c) { unimplemented!() }

/// every non-empty sequence is its head followed by its tail (stated with a trigger on `skip(1)` so that it
/// fires for the iterator's pre-`next()` state, which has no name inside a `while let` body)
pub proof fn lemma_head_skip()
    ensures forall|s: Seq<char>| #![trigger s.skip(1)] s.len() > 0 ==> s == seq![s[0]] + s.skip(1),
{
    assert forall|s: Seq<char>| #![trigger s.skip(1)] s.len() > 0 implies s == seq![s[0]] + s.skip(1) by {
        assert(s =~= seq![s[0]] + s.skip(1));
    }
}


// ---- byte offsets into a str (what `s.len()`, `char_indices()` and `&s[a..b]` speak about)
pub open spec fn blen(s: Seq<char>) -> int { encode_utf8(s).len() as int }
/// `a` is a char boundary of s: the byte length of some prefix
pub open spec fn boundary(s: Seq<char>, a: int) -> bool { exists|k: int| 0 <= k <= s.len() && #[trigger] blen(s.take(k)) == a }
#[verifier::external_body]
pub fn __str_len(s: &str) -> (r: usize) ensures r == blen(s@) { s.len() }
#[verifier::external_body]
pub fn __char_len_utf8(c: char) -> (r: usize) ensures r == blen(seq![c]), 1 <= r <= 4 { c.len_utf8() }
/// `&s[a..b]`: Rust panics unless a <= b and both are char boundaries; then it is the chars between them
#[verifier::external_body]
pub fn __str_slice<'a>(s: &'a str, a: usize, b: usize) -> (r: &'a str)
    requires a <= b, boundary(s@, a as int), boundary(s@, b as int),
    ensures forall|ka: int, kb: int| 0 <= ka <= kb <= s@.len() && #[trigger] blen(s@.take(ka)) == a && #[trigger] blen(s@.take(kb)) == b ==> r@ == s@.subrange(ka, kb),
{ &s[a..b] }
#[verifier::external_body]
pub fn __str_slice_from<'a>(s: &'a str, a: usize) -> (r: &'a str)
    requires boundary(s@, a as int),
    ensures forall|ka: int| 0 <= ka <= s@.len() && #[trigger] blen(s@.take(ka)) == a ==> r@ == s@.skip(ka),
{ &s[a..] }
/// a str never exceeds isize::MAX bytes
#[verifier::external_body]
pub proof fn axiom_str_fits(s: &str) ensures blen(s@) <= usize::MAX {}
pub proof fn lemma_blen_push(s: Seq<char>, c: char) ensures blen(s.push(c)) == blen(s) + blen(seq![c]) {
    encode_utf8_concat(s, seq![c]);
    assert(s + seq![c] =~= s.push(c));
}
pub proof fn lemma_blen_ascii(c: char) requires (c as u32) < 128 ensures blen(seq![c]) == 1 {
    assert(is_ascii_chars(seq![c]));
    is_ascii_chars_encode_utf8(seq![c]);
}

// plain str helpers (std functions without a vstd spec)
#[verifier::external_body]
pub fn __str_to_string(s: &str) -> (r: String) ensures r@ == s@ { s.to_string() }
#[verifier::external_body]
pub fn __str_eq(a: &str, b: &str) -> (r: bool) ensures r == (a@ == b@) { a == b }
#[verifier::external_body]
pub fn __str_is_empty(a: &str) -> (r: bool) ensures r == (a@.len() == 0) { a.is_empty() }
#[verifier::external_body]
pub fn __str_ne(a: &str, b: &str) -> (r: bool) ensures r == (a@ != b@) { a != b }
// R36: `[a, b].concat()` of two byte containers
#[verifier::external_body]
pub fn __vec_concat2(a: Vec<u8>, b: Vec<u8>) -> (r: Vec<u8>) ensures r@ == a@ + b@ { [a, b].concat() }
// R19: `a == b` on byte slices compares contents
#[verifier::external_body]
pub fn __bytes_eq(a: &[u8], b: &[u8]) -> (r: bool) ensures r == (a@ == b@) { a == b }

pub open spec fn strs_view(v: Seq<&str>) -> Seq<Seq<char>> { Seq::new(v.len(), |i: int| v[i]@) }

// ---- Cram glob -> regex translation (glob_cram.rs)
/// `S.chars().collect::<Vec<_>>()` (rule R40c)
#[verifier::external_body]
pub fn __chars_vec(s: &str) -> (r: Vec<char>) ensures r@ == s@ { s.chars().collect() }
/// regex::escape: what it does to a text is the regex crate's business (uninterpreted); scrut hands it ONE character at a time
pub uninterp spec fn rx_escape(s: Seq<char>) -> Seq<char>;
#[verifier::external_body]
pub fn __regex_escape(s: &str) -> (r: String) ensures r@ == rx_escape(s@) { unimplemented!() }
/// anyhow::Context::context on a Result: same value, the error gets a message
#[verifier::external_body]
pub fn __anyhow_context<T>(r: anyhow::Result<T>, _c: &str) -> (o: anyhow::Result<T>)
    ensures (o is Ok) == (r is Ok), o is Ok ==> o->Ok_0 == r->Ok_0 { unimplemented!() }

// ---- the ` (no-eol)` ending of an escaped rendering (escaping.rs keep_trailing_no_eol)
pub open spec fn m_noeol() -> Seq<char> { seq![' ', '(', 'n', 'o', '-', 'e', 'o', 'l', ')'] }
/// `)` as an escape sequence
pub open spec fn x29() -> Seq<char> { seq!['\\', 'x', '2', '9'] }
/// an escaped rendering is written so that it does not END in ` (no-eol)` (the reader of `(escaped)` expectations drops such an ending):
/// the closing parenthesis becomes `\x29`
pub open spec fn protect(t: Seq<char>) -> Seq<char> { if is_suffix_of(m_noeol(), t) { t.drop_last() + x29() } else { t } }
