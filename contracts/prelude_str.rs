// ---- prelude for string-processing units (C04, C11). TRUSTED.
use vstd::std_specs::iter::IteratorSpec;
broadcast use vstd::laws_eq::group_laws_eq;
use vstd::utf8::*;

// R21: String: FromIterator<char> concatenates the chars in order
#[verifier::external_body]
pub fn __string_from_chars(v: Vec<char>) -> (r: String) ensures r@ == v@ { v.into_iter().collect() }
// R22: char::encode_utf8(buf).as_bytes() is the UTF-8 encoding of the single char
#[verifier::external_body]
pub fn __encode_utf8_vec(c: char) -> (r: Vec<u8>) ensures r@ == encode_utf8(seq![c]) { let mut b = [0u8; 4]; c.encode_utf8(&mut b).as_bytes().to_vec() }
// R14 (shared with the config prelude): Vec::extend appends in order
#[verifier::external_body]
pub fn __vec_extend<T>(v: &mut Vec<T>, it: Vec<T>) ensures final(v)@ == old(v)@ + it@ { v.extend(it) }

// u8::from_str_radix: modelled by an uninterpreted function of (text, radix); the only fact assumed about it is its
// value on two-digit strings (validated exhaustively against the real function by the thorough tier, 2 x 256 cases)
#[verifier::external_type_specification]
#[verifier::external_body]
pub struct ExParseIntError(core::num::ParseIntError);
pub uninterp spec fn radix_u8(s: Seq<char>, radix: u32) -> Option<u8>;
pub assume_specification [u8::from_str_radix] (src: &str, radix: u32) -> (r: core::result::Result<u8, core::num::ParseIntError>)
    ensures (r is Ok) == (radix_u8(src@, radix) is Some), r is Ok ==> r->Ok_0 == radix_u8(src@, radix)->0;
// `c.to_string()` for a char is the one-char string
#[verifier::external_body]
pub fn __char_to_string(c: char) -> (r: String) ensures r@ == seq![c] { c.to_string() }
// R18: `Cow<'_, [u8]>` is replaced by `Vec<u8>` (same byte content; borrowing vs owning is dropped)
#[verifier::external_body]
pub fn __cow_borrowed(x: &[u8]) -> (r: Vec<u8>) ensures r@ == x@ { x.to_vec() }
pub fn __cow_owned(x: Vec<u8>) -> (r: Vec<u8>) ensures r@ == x@ { x }
pub assume_specification<T> [<[T]>::to_vec] (s: &[T]) -> (r: std::vec::Vec<T>)
    where T: core::clone::Clone
    ensures r@ == s@;
pub assume_specification [String::as_bytes] (s: &String) -> (r: &[u8]) ensures r@ == encode_utf8(s@);
// R19: `Cow<[u8]> == &[u8]` (Cow is modelled as Vec<u8>, R18) compares the byte contents
#[verifier::external_body]
pub fn __cow_eq_slice(a: Vec<u8>, b: &[u8]) -> (r: bool) ensures r == (a@ == b@) { &a[..] == b }
