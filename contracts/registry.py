"""property -> units, scope notes and assumptions (read by ../check)"""

DIFF_TRUST = [
    "Rule::matches is a pure function of (rule, line): modelled as uninterpreted rule_matches (prelude.rs) — the proof holds for every rule implementation",
    "derived Clone of Expectation returns a structurally equal value (derive dropped by extraction, inherent external_body clone/to_owned shim)",
    "<[T] as ToOwned>::to_owned returns an equal sequence (assume_specification)",
    "rewrite rules R1-R6,R10,R11 of DESIGN.md §4.2 preserve std iterator semantics (enumerate / filter+for_each / map+collect / skip+position+map / any)",
    "Diff::new: only `r.lines == lines` is used, assumed (external_body); its counter arithmetic is not verified",
    "stack depth, heap exhaustion and running time are outside every contract",
]

REG = {
    "_rlimit": 50,
    "C01": {
        "thorough_extra": ["replay"],
        "units": ["diff", "validate"],
        "scope": "DiffTool::diff + peek_* + Diff::has_differences + split_at_newline + Expectation::matches: "
                 "result has no differences  ==>  the output's lines are in the language e1{q1}..en{qn} (spec fn `accepts`); and at the API that judges a test, "
                 "TestCase::validate: Ok ==> accepts(expectations, lines_of(selected stream)) (unit validate, modular over the diff contracts)",
        "assumptions": DIFF_TRUST,
        "not_decided": [],
    },
    "C02": {
        "thorough_extra": ["replay"],
        "units": ["diff", "matchers"],
        "scope": "DiffTool::diff: terminates (decreases), no panic (index/overflow/unwrap obligations), result satisfies wf_prefix: "
                 "every output line exactly once in order with content equal to the split line, matched lines really match, "
                 "expectation indices strictly increasing, skipped ones optional, unmatched ones non-optional; split_at_newline "
                 "is the split of the bytes after every LF (concat == output). Unit matchers: the six Rule::matches implementations that diff calls and the "
                 "newline helpers under them terminate and cannot panic (their safety/decreases obligations; contracts re-used from unit escaping)",
        "assumptions": DIFF_TRUST,
        "not_decided": [],
    },
    "C03": {
        "thorough_extra": ["replay"],
        "units": ["diff"],
        "scope": "DiffTool::diff: deterministic(E, L) && accepts(E, L) ==> no differences (with C01: reports a match exactly when described)",
        "assumptions": DIFF_TRUST + ["determinism is quantified over all states (i, used, j), not only reachable ones (slightly stronger hypothesis, DESIGN §5)"],
        "not_decided": [],
    },
}

REG["C16"] = {
    "thorough_extra": ["replay"],
    "quick_extra": ["replay"],
    "units": ["config", "cliconfig"],
    "scope": "The command-line layer (unit cliconfig): GlobalSharedParameters::to_testcase_config / to_document_config and Args::to_testcase_config / to_document_config of `scrut test` set exactly "
             "the keys whose flags are given (--no-combine-output before --combine-output, --no-keep-output-crlf before --keep-output-crlf, --shell, --timeout-seconds incl. 0, -A / -P lists) and leave "
             "every other key unset, so that lower layers show through (TestCaseConfig::empty / DocumentConfig::empty are `every key unset`). "
             "TestCaseConfig::{with_defaults_from, with_overrides_from}, DocumentConfig::{with_defaults_from, with_overrides_from}: "
             "every key and every individual environment variable comes from the higher layer when it sets it (tc_layer/env_layer/doc_layer); "
             "lemmas over the contracts: associativity, identity of the empty layer, 4-layer first-Some statement, prepend/append accumulate in order",
    "assumptions": [
        "R7: FromIterator for BTreeMap over a.into_iter().chain(b): later insert wins (external_body __btree_chain_collect, operands spliced verbatim)",
        "R15: X.clone().or_else(|| Y.clone()) == pick(X, Y): Clone of bool/i32/Duration/PathBuf/derived-Clone types yields an equal value",
        "R14: Vec::extend(Vec) appends in order; Option::or per std docs (assume_specification)",
        "call sites: the composing EXPRESSIONS in MarkdownParser::parse (set_testcase_config argument) and StatefulExecutor::execute_all "
        "(testcase.config = ...) are extracted verbatim as functions of their own and verified against tc_layer3/tc_layer; the rest of those functions is dropped. "
        "The command-line layer (bin/commands/test.rs with_overrides_from(&testcase_config)) is checked textually only (anchor lost => exit 2)",
        "field-access shims TestCaseShim/ContextShim stand for TestCase.config / Context.config",
        "unit cliconfig: #[derive(Default)] of TestCaseConfig / DocumentConfig yields `every key unset` (external_body impls); logging::LogLevel and Option<Escaper> fields are opaque types; clap attributes dropped",
    ],
    "not_decided": ["the clap declarations that fill GlobalSharedParameters / Args from argv; the `create` and `update` commands' own flag translation", "the values of the format defaults",
                    "that a key which is WRITTEN in a layer is read as set (serde_yaml / humantime deserializers): BOUNDED cross-check only — verif-replay config reads inline configurations and front "
                    "matter with timeouts 0s / 0ms / 5s / 1m 1s / absent and layers every pair"],
    "callsites": [
        ("src/bin/commands/test.rs", ".with_overrides_from(&testcase_config)"),
        ("src/bin/commands/test.rs", "test.config.with_overrides_from(&document_config)"),
    ],
    # the document defaults are applied to the test case BEFORE its timeout and wait settings are read (the @expr contract covers the
    # expression, not its position)
    "callsites_ordered": [("src/executors/stateful_executor.rs", ["testcase.config = testcase.config.with_defaults_from(&context.config.defaults);",
                                                                   "let (is_global_timeout, timeout) = vec![", "if let Some(ref wait) = testcase.config.wait {"])],
}

REG["C05"] = {
    "quick_extra": ["replay", "e2e"],
    "thorough_extra": ["replay", "e2e"],
    "kani_units": ["c05_exitstatus"],
    "units": ["validate"],
    "scope": "TestCase::validate: wrong exit code => Err(InvalidExitCode{actual, expected}) regardless of output; Ok => exit status is Code(expected) "
             "(0 when none written) [or Detached, which the reporting sites filter out] AND the configured stream (stderr iff output_stream==stderr, else stdout) "
             "is in the expectation language (via the C01 contract of DiffTool::diff); code ok && deterministic && accepted => Ok (via the C03 contract). "
             "The From<&OutputStream> for &[u8] conversion is verified to return the stream's bytes. "
             "Engine KX: `impl From<subprocess::ExitStatus> for ExitStatus` (extracted with scrut's ExitStatus enum, real subprocess crate as dependency): "
             "Exited(c) -> Code(c as i32), Other(c) -> Code(c), Signaled/Undetermined -> Unknown, for all payloads (loop-free, full domain).",
    "assumptions": DIFF_TRUST + [
        "contracts of DiffTool::new/diff and Diff::has_differences are imported from unit diff (proved there by the C01/C02/C03 checks), used here as external_body",
        "R16: `E.map_err(F)?` desugared to match/return; R8: anyhow!(..) replaced by an opaque error value",
        "for output_stream == combined the executor has merged stderr into stdout before validate is called (subprocess, out of reach)",
        "Detached outputs validate as today (update.rs validates them); bin/commands/test.rs filters Detached before validate — textual anchor only",
    ],
    "not_decided": ["that the executor hands validate the output of *this* test case", "that bin/commands/test.rs counts Err as failed and Timeout before validate",
                    "the last sentence end to end (a command killed by a signal, and every later test case, is not reported as succeeded): BOUNDED stand-in only — engine e2e builds the real "
                    "scrut binary from the working tree and runs 12 generated documents (the test case at position 1..3 kills its shell with SIGKILL / SIGTERM; Markdown and Cram) through "
                    "`scrut test -r json`: no `success` at or after that test case, the earlier ones succeed, exit status 50 or 1",
                    ],
    "callsites": [("src/bin/commands/test.rs", "if output.exit_code == ExitStatus::Detached { count_detached += 1; continue; }")],
}

REG["C14"] = {
    "units": ["timeouts"], "kani_units": ["c14_timeout"],
    "thorough_extra": ["replay", "e2e"],
    "quick_extra": ["replay", "e2e"],
    "scope": "PARTIAL: (1) how the document limit is resolved — the three limit-resolving expressions of StatefulExecutor::execute_all and the one of the "
             "single-script executor, extracted verbatim (@expr): configured value or the default, an explicit 0 means no deadline, any other value means a deadline, and with a "
             "deadline there is always a remaining budget (an expired deadline never turns into 'no limit'); (2) 'whichever limit is reached first' — the ordering used by StatefulExecutor::execute_all to pick the effective timeout "
             "(derived Ord of the private struct Timeout, extracted with its derive list; `.min()` over Option<Timeout>) selects the smaller duration; "
             "loop-free Kani harness over the full domain of both limits (bool x u64 secs x u32 nanos each)",
    "assumptions": ["the selection expression itself (vec![..].into_iter().filter(is_some).min()) is inside execute_all, out of reach: the harness applies "
                    "Option::min to the extracted struct, which is what Iterator::min folds with; anchor checked textually",
                    "Kani/CBMC; rustc's expansion of #[derive(PartialOrd, Ord)] is what is proved (the struct text incl. attributes is copied verbatim)"],
    "not_decided": ["that the process is really aborted after that long (subprocess + kernel): BOUNDED stand-in only — verif-replay c14 runs 18 real bash executions through StatefulExecutor + BashRunner, each in a process of its own (per-test 1.2 s vs document 9 s and the reverse, each alone, document timeout 0 with and without a per-test limit, no timeout reached, both generous; the slow test case first or second, always followed by one more; in the second position the per-test limit is not written on the test cases but comes from the `defaults` of the execution context) and checks which limit is reported (Index / Total / none), that the outputs stop at the aborted test case and that the 5 s command is cut off within 4 s", "skipped-vs-passed accounting after a timeout (bin/commands/test.rs): BOUNDED stand-in only — engine e2e builds the real scrut binary from the working tree and runs 27 generated documents through `scrut test -r json` (slow test case at position 1..3 x {per-test 300 ms; the same limit coming from the document `defaults`; the same with total_timeout 0s; the same under --timeout-seconds 20; total_timeout 1500 ms; the same with a 20 s per-test limit; --timeout-seconds 2}; Cram under --timeout-seconds 2; three documents whose commands finish inside every limit): results [success.., timeout, skipped..] + the other document's success, exit status 50 (0 when nothing times out)",
                    "the arithmetic of std::time::Instant (opaque shim: now/add/duration_since carry no contract)", "the value of the default limit"],
    "callsites": [("src/executors/stateful_executor.rs", ".into_iter().filter(|item| item.is_some()).min()")],
}

ESC_TRUST = [
    "vstd::utf8::encode_utf8 is the UTF-8 encoding; String::as_bytes / str::as_bytes return it (assume_specification)",
    "u8::from_str_radix is modelled by the uninterpreted radix_u8; only its value on two hex/octal digits is assumed (validated exhaustively in the thorough tier)",
    "R8' format helpers: core::fmt semantics of `{}` on str and `{:02x}` on u8 (ensures derived from the literal; validated exhaustively in the thorough tier)",
    "R18/R19: Cow<[u8]> modelled as Vec<u8> with the same content; Cow == &[u8] compares contents",
    "R20-R24: local macro expansion, `?` on ok_or_else/with_context/context desugared to match/return with an opaque error value",
    "`while let Some(c) = chars.next()` loops (unescape_tabs, resolve_escape_sequences_to_bytes): partial correctness only, termination unproved (vstd iterator measure)",
]
REG["C04"] = {
    "thorough_extra": ["replay"],
    "quick_extra": ["replay"],
    "units": ["escaping"],
    "scope": "equal: matches iff line == expr + LF; no-eol: iff line == expr; escaped: matches iff stored bytes == line without trailing LFs, and the stored bytes are "
             "decode(expr) = resolve(unesc(expr)) (both decoders verified against recursive specs); regex: a regular expression is taken AS WRITTEN (only an expression the regex crate rejects goes through the three clean-ups), what is anchored is an expression of its own, the pattern handed to the regex crate is ^(?:cleaned)$ and the candidate is "
             "the line without trailing LFs; glob (wildmatch) and Cram glob: candidate is lossy/bytes of the line without trailing LFs. Cram glob translation table (glob_to_regex_string, loop invariant against the recursive spec g2r): the compiled pattern is `^` + per-token translation + `$` with `?` -> `.`, `*` -> `.*`, `\\*` `\\?` `\\\\` kept as escaped literals and every other character handed to regex::escape one at a time; glob_to_regex compiles exactly that text; CramGlobRule::make translates the expression itself or, when marked ` (escaped)`, its decoded text. newline helpers trim_newlines/assure_newline/ends_in_newline verified. "
             "EscapedRule::make stores decode(expression minus a trailing ` (no-eol)`); GlobRule::make hands wildmatch the expression itself or, when it carries an ` (escaped)`/` (esc)` marker "
             "(expression_as_escaped == as_escaped, all str slices proved to be on char boundaries), its decoded text (apply_escaped_filter_utf8).",
    "assumptions": ESC_TRUST + [
        "the matching semantics of the regex and wildmatch crates (uninterpreted regex_lang / wild_lang): `?` = one char, `*` = any run, and L(^(?:e)$) = whole-string L(e) are NOT proved",
        "the three best-effort regex clean-ups are uninterpreted (since fix 0aef8b2 they only see expressions that are NOT regular expressions; their effect is not specified by the property)", "regex_valid(e) = the regex crate compiles e (uninterpreted); cross-checked bounded: verif-replay regexkind compares the rule scrut builds for 45 valid expressions (quantifiers, classes incl. POSIX and nested, braced escapes, word boundaries, literal text) with the regex crate's own whole-line answer on a pool of 44 lines",
    ],
    "not_decided": ["the wildmatch / regex matching semantics (incl. that `.` is one CHARACTER, not one byte, and what regex::escape returns): BOUNDED cross-check only — verif-replay glob N runs every glob of up to N "
                    "characters over {a, é, ?, *} against every line of up to 3 characters over {a, b, é, 😀}, with and without final newline, through GlobRule and CramGlobRule and compares with the "
                    "statement's reading (`?` exactly one character, `*` any run) (quick N=4: 57,970 cases; thorough N=6)", "kind dispatch in RuleRegistry (regex-based, C08)"],
}

REG["C11"] = {
    "thorough_extra": ["replay"],
    "quick_extra": ["replay"],
    "units": ["escaping"],
    "scope": "UNICODE mode: escaped_expectation_unicode(line) contains no C* (control/format/unassigned/private/surrogate) code point and is either the line itself or "
             "`t (escaped)` with decode(t) == content (escaped_printable_unicode proved equal to enc_u; round-trip lemma per char). "
             "ASCII mode: escaped_expectation_ascii(line) is all printable ASCII and is either the line itself (its UTF-8 bytes are the line's content) or `t (escaped)` with "
             "decode(t) == content (round-trip lemma over the verified encoder table byte_to_ascii == enc_a and the verified decoders unescape_tabs == unesc, "
             "resolve_escape_sequences_to_bytes == resolve); EscapedRule::matches compares the stored bytes with the line minus trailing LFs.",
    "assumptions": ESC_TRUST + [
        "String::from_utf8_lossy: identity on ASCII bytes; a control byte / DEL / byte >= 0x80 never decodes to printable ASCII only (axiom_lossy_*; bounded validation in thorough tier)",
        "a line has no LF except at its end (holds for the output of split_at_newline, proved under C02)",
        "`no control, format or unassigned code point` is stated with unicode_categories::is_other, the predicate the escaper itself uses (Cc | Cf | Co of crate 0.1.1): the proof shows that nothing `is_other` is written, NOT that this predicate is the statement's (it is not: unassigned code points and 20 newer format characters are outside it -- KNOWN FINDING bounded.escape.unassigned-or-new-format, found by comparing with the regex crate's Unicode tables); is_other is uninterpreted; assumed: printable ASCII is never `other`, an `other` char has a UTF-8 byte outside 0x20..0x7e, 0x0a occurs only in U+000A, "
        "from_utf8_lossy(valid utf8) is the decoding (axiom_* in escape_roundtrip.rs; exhaustive validation over all scalar values in the thorough tier)",
        "String::from_utf8 is Ok exactly on valid UTF-8 (vstd valid_utf8) and then encodes back to the input",
    ],
    "not_decided": ["that the written text is *parsed back* as that kind (ExpectationMaker::parse is regex-based: a plain line ending in ` (glob)` etc. is C09's concern)"],
}

REG["C06"] = {
    "thorough_extra": ["replay"],
    "quick_extra": ["replay"],
    "units": ["markdown", "lineparser", "mdparse"],
    "scope": "PARTIAL — the tokenizer: (1) extract_code_block_start(line) equals the spec `cbs`: exactly ``` or a run of >= 3 backticks followed by an info string, split at the first `{` "
             "into (backticks, language, config); all str slices are proved to be taken at char boundaries (Rust's panic condition is the helper's precondition); "
             "(2) MarkdownIterator::next: a call consumes a prefix of the remaining lines, counts them, ends only at the end of input, and the token it returns accounts for exactly the "
             "consumed lines (`token_ok`: Line / DocumentConfig / VerbatimCodeBlock / TestCodeBlock with line numbers, comment vs code lines, inline config, and the block ends at the FIRST later "
             "line that starts at column 0 with the opening backtick run); (3) the expression of MarkdownParser::parse that takes the last code line is safe for a block without lines.",
    "assumptions": [
        "std::str::Lines modelled by an opaque iterator with a `remaining()` sequence and the usual next() law; str helpers (__str_eq, starts_with/strip_* with exact Seq<char> specs, "
        "__str_slice with the char-boundary precondition, __str_len, __char_len_utf8) are trusted wrappers of the std functions",
        "str::trim / trim_end are uninterpreted (the language is the info string with trailing whitespace removed, whatever std calls whitespace)",
        "`while let` over chars(): termination of extract_code_block_start unproved",
        "the number of lines fits usize (precondition of next())",
    ],
    "not_decided": ["which lines are titles (regexes ^\\p{L}+ and HEADER_LINE; uninterpreted `title_of` in the parse contract) and which are exit-code lines (uninterpreted `exit_code_of`): "
                    "BOUNDED cross-check only — verif-replay leaves markdown puts 21 candidate title lines (Latin, umlaut, Cyrillic, CJK, headings with tabs / several spaces, `#nospace`, list items, quotes, "
                    "digits ...) between a heading and a scrut block and 28 candidate exit-code lines at the end of a block through the real MarkdownParser and compares title, line number, exit code "
                    "and expectations with an independent reading; verif-replay markdown: six documents (empty block, multi-byte info string, unterminated constructs)",
                    "YAML front-matter / inline config parsing (serde_yaml: an uninterpreted partial function of the text)", "CRLF handling of str::lines",
                    "that language tokens are compared as written (`languages.contains`)"],
}

REG["C13"] = {
    "units": ["capture"],
    "thorough_extra": ["replay"],
    "quick_extra": ["replay"],
    "scope": "PARTIAL — only the last sentence of the property: 'The only transformations are the documented ones: every CR LF pair becomes LF unless keep_crlf is set (for outputs of "
             "any size), and ANSI escape sequences are removed only when strip_ansi_escaping is set.' newline::replace_crlf(bytes) == drop_cr(bytes) (left to right, a CR directly "
             "followed by LF is dropped, nothing else changes; since fix 3d7e592 one pass with the loop invariant `written + drop_cr(rest) == drop_cr(all)`, termination proved); TestCase::render_output == rendered (CRLF step skipped iff keep_crlf == Some(true); "
             "ANSI stripping applied iff strip_ansi_escaping == Some(true)). Where they are applied: the expression that builds the Output of SubprocessRunner::run (extracted with @expr tail) puts what the process wrote to stdout into "
             "Output.stdout and what it wrote to stderr into Output.stderr (not swapped), each through render_output, and passes the exit status through.",
    "assumptions": [
        "R18: Cow<[u8]> modelled as Vec<u8> with the same content; R35: windows(2).position(..) as an inline search loop; byte-string const CRLF as a function; [T]::to_vec per std",
        "strip_ansi_escapes::strip is uninterpreted (strip_ansi)",
        "stack depth and running time are outside every contract (the recursive replace_crlf that was proved correct until fix 3d7e592 overflowed the stack on 100 000 CR LF pairs: found by the bounded run `many-crlf`, not by the proof)",
    ],
    "not_decided": ["everything that happens in bash and in the kernel — that the shell receives the expression verbatim, that each stream is captured byte for byte and attributed to its test case "
                    "(also by the single-script executor's divider parsing), the exit code, that state carried between test cases does not leak into later outputs: BOUNDED stand-in only — "
                    "verif-replay c13 N runs real bash processes: 15 payloads (empty, no final LF, CR LF / bare CR / CR CR LF mixes, TAB, ANSI, invalid UTF-8, control bytes, emoji, blank lines, "
                    "trailing CR) on stdout x two stderr payloads x exit codes 0 / 7 x keep_crlf unset / set through SubprocessRunner and through StatefulExecutor + BashRunner, all payloads in ONE script "
                    "through BashScriptExecutor on either stream, eleven texts with quotes / backslashes / `$` / globs / every placeholder of the runner's script template printed back, four payloads that look like the single-script executor's divider, ANSI stripping on / off, that stripping removes nothing but escape sequences (KNOWN FINDING ansi-strips-more), 200 000 CR LF lines in a process of its own, (N>=3: 1.5 MB payloads,) output before a timeout, "
                    "and a three-step sequence with pushd / export / alias / shopt state (quick N=1: 221 cases, 3 s)",
                    "merge order of the combined stream"],
}

REG["C07"] = {
    "thorough_extra": ["replay"],
    "quick_extra": ["replay"],
    "units": ["lineparser", "cram"],
    "scope": "LineParser (the Cram-style body grammar shared by both formats): add_testcase_body / end_testcase / flush / has_testcase_body / set_* equal the abstract state "
             "machine s_body / s_end / ... (a `$ ` line starts a command and, when one is already collected, ends the previous test; `> ` continues it; `[n]` is the exit code, once; "
             "every other line is an expectation; the test's line number is the 1-based index of its first `$` line). CramParser::parse(text) returns exactly cram_doc(lines(text)): "
             "`#` lines are comments, an empty line ends the test, a line indented by the configured indent belongs to a body (indent removed, the rest kept verbatim) and gets the Cram "
             "defaults, any other line ends the test and is the title of the next one; an error iff the line semantics has one. Lemma over that semantics (lemma_cram_doc): an accepted "
             "document yields exactly one test case per indented `$` line, in document order, each with the Cram defaults (combined output, CRLF kept, skip code 80) and its 1-based line number. "
             "TestCaseConfig::default_cram verified key by key.",
    "assumptions": [
        "str::lines (document -> lines) is uninterpreted; the expectation grammar (ExpectationMaker::parse, regex based: C08) and the exit-code pattern `[digits]` (extract_exit_code, regex) "
        "are uninterpreted partial functions of the line's text",
        "derived Clone of Expectation/TestCase/TestCaseConfig yields an equal value; derived Default of TestCaseConfig is 'every key unset' (shim, R39); Vec::join(\"\\n\"), "
        "to_owned().unwrap_or_default() helpers (R37/R38)",
        "title rule as implemented and documented (website/docs/reference/formats/cram-format.md): a title line belongs to the FIRST test case after it; later test cases of the same block have "
        "an empty title. The statement's 'nearest preceding unindented title line' is read in that sense.",
        "the number of lines is below usize::MAX (Vec capacity)",
    ],
    "not_decided": ["which lines the expectation regex accepts and how it splits them (C08)", "the exit-code regex: BOUNDED cross-check only — verif-replay leaves cram puts 28 candidate lines "
                    "([0] [01] [2147483647] [2147483648] [-1] [+3] [ 1] [1][2] [١] ...) as the last body line of a Cram test through the real CramParser and compares exit code "
                    "and expectations with an independent reading (`[` ASCII digits `]`, fits i32)", "CRLF handling of str::lines"],
}

REG["C08"] = {
    "units": ["expectation"],
    "thorough_extra": ["replay"],
    "quick_extra": ["replay"],
    "scope": "PARTIAL — the line grammar around the regular expression. ExpectationMaker::extract returns line_parts(line): a final `<ws>(<kind><quantifier>)` group whose kind is a registered "
             "name (or empty) and that has a kind and/or a quantifier is the modifier, everything before it is the expression verbatim, an empty kind means `equal`; every other line -- also one "
             "ending in `()` -- is an `equal` expectation for the whole line (lemma_mod_split_unique: the decomposition is unique, the regular expression has no choice). ExpectationMaker::parse: "
             "`?` optional, `*` optional and repeated, `+` repeated; an error exactly when the registry refuses (kind, expression); the rule is what the registry makes of them; "
             "ExpectationMaker::make carries flags and original text. Rule::to_expression_string returns render_spec (bare / ` (q)` / ` (escaped q)` / ` (kind q)`, and ` (equal)` for an "
             "unquantified equal rule whose text ends like a modifier) and that rendering reads back (line_parts) as the same expression text, written kind and quantifier "
             "(C08.render.reparses.*, lemma_c08_roundtrip). Index safety of captures[0..2] included.",
    "assumptions": [
        "REGEX: the initialiser of `captures` in extract() (to_expectation_regex()?.captures(line) + skip/filter_map/collect) is dropped and replaced by a trusted helper whose contract caps_ok states "
        "what ^(.*?)(?:\\s\\(({names}|)?([*+?])?\\))?$ returns on a line without line feed; rule.rs::ends_in_modifier (same expression, static) is trusted with has_proper_mod. "
        "Cross-checked BOUNDED in the thorough tier: all 299 600 lines over {a,space,(,),?,*,r,e} up to 6 characters against an independent reading of the grammar (replay c08 6)",
        "lines contain no line feed (they come from str::lines); registered rule names are non-empty words without parentheses and quantifier characters (reg_wf; true of the default registry, read)",
        "RuleRegistry (HashMap of fn pointers) is opaque: which names are registered and what a maker returns are uninterpreted; RuleRegistry::make fails for unregistered names and "
        "RuleRegistry::default registers equal and escaped (read, not verified: axiom_default_registry); U+0020 is \\s (axiom_space_is_ws)",
        "Escaper::escaped_printable / has_unprintable and Rule::unmake are uninterpreted here (C11 / C04 decide them); newline::trim_newlines is uninterpreted",
        "format! helpers with ensures derived from the literal (R8')",
    ],
    "not_decided": ["which (kind, expression) pairs each rule maker accepts ('fails only when an explicitly marked regex or escaped expression is itself malformed': the makers call the regex crate / "
                    "unescape)", "that the re-parsed rule 'matches the same line contents' (needs unmake ∘ make per rule and escaped_printable ∘ unescape: C11 covers the escaped kind only)",
                    "rules other than the default registry's"],
}

REG["C10"] = {
    "units": ["markdown", "fence", "mdupdate", "genoutcome"],
    "thorough_extra": ["replay"],
    "quick_extra": ["replay"],
    "scope": "PARTIAL — MarkdownUpdateGenerator::generate_update(document, outcomes) over the tokenizer contract (unit markdown, co-owned): the result is upd_fold over a tokenization that covers the "
             "WHOLE document (a document ending inside a front matter / fence is an error, nothing after any construct is truncated): every prose line, front matter and foreign code block is "
             "written back as exactly the lines it stands for, in order (lemma_upd_nontest); a scrut block WITH a `$ ` command takes the next outcome, in order, and is written as fence + the "
             "language as written + the inline configuration ` {…}` + its comment lines as they are + the generated body + closing fence; a scrut block WITHOUT a command takes no outcome and "
             "keeps its own lines (lemma_upd_test: number and order of blocks, language, configuration, comments). `outcomes[testcase_index]` is in bounds when the caller passes one outcome "
             "per test case (= per block with a command: lemma_md_doc of C06). has_command(code_lines) == 'some line starts with `$ `'. No outcomes: the document is returned as it is.",
    "assumptions": [
        "in unit mdupdate Outcome is opaque (gen_text); what OutcomeTestGenerator::generate_testcase writes is decided in unit genoutcome (co-owned with C09): for a passing test "
        "gen_spec is the command lines + the expectation lines exactly as written (Expectation::original_string) + the exit-code line; max_backtick_size is under contract (unit fence: the longest run of backticks at the start of a line of the block, at least 2; lemma_fence_safe / lemma_block_fence_safe: the fence written, one backtick longer, is not the start of any line of the body); str::trim_start uninterpreted",
        "lines are those of str::lines (uninterpreted; CR LF and a missing final line feed are therefore normalised: 'byte for byte' is decided at the level of lines, each written with one LF); "
        "axiom_lines_no_lf: no line contains a line feed",
        "String::push_str, StringNewline::assure_newline (read from src/newline.rs), \"`\".repeat(n), format!/formatln! helpers with ensures derived from the literal (R8')",
        "precondition C10.pre.outcomes (one outcome per test case) is the caller's obligation (commands/update.rs zips test cases with outputs; read, not verified)",
        "solver budget of generate_update raised to rlimit 40 (default 10)",
        "unit fence: a string has at most isize::MAX bytes and at least one byte per char (axiom_str_isize, axiom_chars_le_bytes); usize::max; termination of the two loops over lines()/chars() unproved",
    ],
    "not_decided": ["idempotence and 'the updated document parses to the same commands' (need the tokenizer run on the OUTPUT text): BOUNDED stand-in only — verif-replay c10 N enumerates all documents "
                    "of up to N constructs from 14 shapes plus up to min(N,4) lines from 13 shapes (quick N=3: 5 333 documents; thorough N=4; 610 134 documents for N=5 were run once), "
                    "checks no panic / no error, idempotence, same commands, and the lines outside scrut blocks by an independent scan",
                    "the body generated for a test (generators/outcome.rs)", "the Cram update generator", "CR LF documents"],
}

REG["C09"] = {
    "units": ["genoutcome"],
    "thorough_extra": ["replay"],
    "quick_extra": ["replay"],
    "scope": "PARTIAL — (1) what the generators write for an outcome: Outcome::generate_testcase == gen_spec (the command as `$ ` / `> ` lines; for a passing test its expectation lines exactly as "
             "written; for a failed comparison the matched expectations as written and every unexpected output line as a new expectation line; the `[n]` line exactly for a non-zero exit code), "
             "OutputStream::to_output_string == out_string, generate_testcase_expression, generate_testcase_exit_code. (2) Line level, over those contracts (lemma_line_reads_back, "
             "lemma_out_string_reads_back, lemma_line_not_exit_code): the line written for an output line -- the text itself, `<text> (no-eol)` for a last line without line feed, `<escaped> (escaped)` "
             "for unprintable content, `<text> (equal)` when the text ends like a modifier or looks like an exit code -- reads back through the expectation grammar (C08: line_parts, default registry) "
             "and the rule kinds (C04) as an unquantified expectation that matches exactly that output line, and is never taken for the exit code of the test.",
    "assumptions": [
        "Escaper::escaped_expectation / has_unprintable are verified dispatchers over the four per-mode functions of unit escaping, imported with their contracts: the expectation text is a spec "
        "function of the content (exp_text_ascii / exp_text_unicode; clauses C11.ascii.text, C11.unicode.text; the UTF-8 decoding is unique: vstd encode_utf8_decode_utf8) and has_unprintable_* decide "
        "exactly which form is written (enc.hasunp, enc.hasunp.unicode, C11.*.form); lemma_exp_text is proved from them (no axiom left here)",
        "which Rule struct a kind name makes (registry) is read, not verified: equal -> EqualRule (text + LF), no-eol -> EqualNoEolRule (text), escaped -> EscapedRule (decoded expression, LF disregarded) "
        "with the matching semantics proved under C04; axiom_default_registry (equal, escaped, no-eol registered, names are plain words)",
        "rule.rs::ends_in_modifier (static regular expression) trusted as has_proper_mod; extract_exit_code (regex) uninterpreted with axiom_exit_code_shape (an accepted line ends in `]`)",
        "lossy_string!, format!/formatln! helpers (R8'), String::push_str, int Display (int_text), byte-string literal b\"\\n\" (R47)",
    ],
    "not_decided": ["how LineParser classifies the written body lines and the document formats around them (fences, Cram indentation): BOUNDED stand-in only — verif-replay c09 N runs the full round trip "
                    "create -> parse -> validate on the real crate for every output over {a, space, (, ?, ), LF, TAB} up to N bytes plus ~230 outputs built from lines that look like test syntax, "
                    "exit codes 0 and 3, both formats, both escapers (quick N=3: 5 048 cases, thorough N=5). It reports two classes that are listed as known findings (below)",
                    "the `update` / `--convert` paths beyond generate_testcase (C10 decides the Markdown update generator's block structure)", "stderr, combined output streams"],
}

REG["C19"] = {
    "units": ["prettyspaces"],
    "thorough_extra": ["replay"],
    "quick_extra": ["replay"],
    "scope": "PARTIAL (small) — the one place of the renderers that slices a line at a computed byte offset: space_start_index(line) returns the byte length of the line without its "
             "trailing whitespace, which is a char boundary of the line, and the two slices of higlight_tailing_spaces (`&input[0..index]`, `&input[index..]`) satisfy Rust's panic condition "
             "(char boundaries, order, bounds) for every such index: the pretty renderer cannot panic there for any line (the pinned tree did, for trailing NBSP / ideographic space).",
    "assumptions": [
        "str::trim_end returns a prefix of its argument (assume_specification); str::len is the UTF-8 byte length; __str_slice's precondition is Rust's slicing panic condition",
        "the enclosing generic method <T as TailingSpacesHighlighter>::higlight_tailing_spaces is not extracted: its two slicing expressions are (@expr), under the precondition that `index` is "
        "what space_start_index returns for the same `input` (read from the two preceding statements)",
    ],
    "not_decided": ["everything else of C19 — that each renderer returns a rendering for every list of outcomes, that pretty and diff contain every unmatched expectation and unexpected line, that json "
                    "and yaml are well-formed with one entry per outcome, no failure section for a passing test (console::style, width arithmetic over format!, serde): BOUNDED stand-in only — "
                    "verif-replay c19 N renders, with all five renderers, every single outcome and every window of up to N outcomes from 15 outputs (empty, trailing space / NBSP / ideographic space / "
                    "em space / TAB, invalid UTF-8, ANSI, emoji, CR LF, no final LF, blank lines) x 7 expectation lists x exit codes 0 / 2 plus Timeout and Skipped verdicts: no panic, no error, json / "
                    "yaml well-formed with one entry per outcome, empty diff for passing tests (quick N=2: 1 263 renderings; thorough N=4)"],
}

REG["C15"] = {
    "units": ["skipcode"],
    "thorough_extra": ["replay", "e2e"],
    "quick_extra": ["replay", "e2e"],
    "scope": "PARTIAL (small) — which exit code is the skip code: TestCaseConfig::get_skip_document_code returns the configured skip_document_code, else 80; the Markdown and the Cram "
             "format defaults both set 80; and the two call sites that pick the code an exit status is compared with (the `let skip_document_code = ..` expressions of "
             "StatefulExecutor::execute_all and BashScriptExecutor::execute_all, extracted verbatim as @expr): it is the skip code of the test case that just ran / of the compiled script, "
             "by its own configuration.",
    "assumptions": ["derived Default of TestCaseConfig (R39 shim)", "TestCaseShim: field-access shim for TestCase.config (the one field the two extracted expressions read)"],
    "not_decided": ["that a document with such an exit code is reported as skipped as a whole, and nothing else is (executors: interleaved with process spawning; reporting: src/bin/commands/test.rs): "
                    "BOUNDED stand-in for the executors only — verif-replay c15 N runs real bash processes: every sequence of up to N test cases with exit codes from {0, 1, 80, 81}, skip code unset "
                    "or configured 81, through StatefulExecutor + BashRunner and through BashScriptExecutor, must give ExecutionError::Skipped(index of the first test case that exits with its skip "
                    "code) exactly when there is one, else every test case its own exit code; the same sequences through BashScriptExecutor followed by a test case that runs `exit 3` (ends the shared shell) and one more: still skipped at that index, and not skipped when no test case exits with the skip code; and through StatefulExecutor under a document-wide skip code 1 that one test case overrides: each test case judged by its own code (quick N=2: 192 executions, thorough N=3: see evidence)",
                    "the accounting in commands/test.rs (every test case of the document skipped, none failed or passed, other documents unaffected): BOUNDED stand-in only — engine e2e builds the "
                    "real scrut binary from the working tree and runs 103 (thorough 145) generated documents through `scrut test -r json`: every position of the skipping test case in documents of "
                    "1..3 (4) test cases x {default code; document-wide 81; 82 for that test case; both} x {plain; failing expectations around it; the code written as expected exit code}, Markdown and "
                    "Cram, next to a second document that must succeed; documents without a skip code (all pass / first fails -> exit 50, nothing skipped)"],
}

VX_NOTE = ("Trusted: Verus/Z3; the extractor's rewrite rules (DESIGN §4.2, each firing is logged in evidence.rewrites_fired); "
           "prelude.rs shims and assume_specifications (mechanically scanned into evidence.trusted_base); "
           "machine integers are NOT idealised (usize overflow is an obligation).")

LEVELS = {
    "C01": {"category": "proof", "technique": "Verus postcondition on extracted DiffTool::diff (contract-based deductive verification)",
            "text": "Unbounded proof over all expectation lists, all match relations (Rule::matches uninterpreted) and all byte streams that "
                    "a diff without differences implies membership in e1{q1}..en{qn}; callers (peek_*) are checked against callee contracts.",
            "design_ref": "DESIGN.md §5 C01", "note": VX_NOTE},
    "C02": {"category": "proof", "technique": "Verus loop invariant wf_prefix + decreases on extracted DiffTool::diff, split_at_newline",
            "text": "Unbounded proof of termination, panic freedom (index/overflow obligations on the real expressions) and conservation "
                    "(every line once in order, expectation indices increasing, skipped ones optional).",
            "design_ref": "DESIGN.md §5 C02", "note": VX_NOTE},
    "C03": {"category": "proof", "technique": "Verus loop invariant c03_inv + case lemma on extracted DiffTool::diff",
            "text": "Unbounded proof that under one-line-lookahead determinism an accepted output yields a diff without differences.",
            "design_ref": "DESIGN.md §5 C03", "note": VX_NOTE},
}
LEVELS["C16"] = {"category": "proof", "technique": "Verus postconditions on extracted with_defaults_from/with_overrides_from + law lemmas over the contracts",
    "text": "Unbounded proof for all configurations and all environment maps that layering takes each key / variable from the higher layer; "
            "associativity, identity and accumulation of prepend/append are lemmas over the contracts. Call-site order is assumed (textual anchor).",
    "design_ref": "DESIGN.md §5 C16", "note": VX_NOTE}
LEVELS["C05"] = {"category": "proof", "technique": "Verus postconditions on extracted TestCase::validate, modular over the diff unit's contracts",
    "text": "Unbounded proof for all test cases, outputs and output_stream settings of the verdict function: Ok iff exit code equals the expected one "
            "and the selected stream is accepted; wrong code reported regardless of output; no exit code => never Ok.",
    "design_ref": "DESIGN.md §5 C05", "note": VX_NOTE}
LEVELS["C14"] = {"category": "proof", "technique": "Verus postconditions on the extracted limit-resolving expressions + Kani proof harness (loop-free, full domain) on the extracted struct Timeout's derived Ord",
    "text": "Complete proof (no unwinding bound: the code is loop-free) over all pairs of limits that the ordering used to select the effective timeout "
            "orders by duration first. Partial scope: abort/accounting behaviour is out of reach and stated as not decided.",
    "design_ref": "DESIGN.md §5 C14", "note": "Trusted: Kani 0.68/CBMC 6.11; extraction copies the struct with its attributes verbatim; see evidence.assumptions"}
LEVELS["C04"] = {"category": "proof", "technique": "Verus postconditions on extracted Rule::matches impls, decoders and RegexRule::make; dependency semantics assumed",
    "text": "Unbounded proof, for all expressions and lines, of the equal / no-eol / escaped matchers and of both escape decoders against recursive specs; for regex and glob "
            "kinds the contract is on the pattern text and candidate bytes handed to the regex / wildmatch crates, whose matching semantics is an assumed contract.",
    "design_ref": "DESIGN.md §5 C04", "note": VX_NOTE}
LEVELS["C11"] = {"category": "proof", "technique": "Verus: encoder/decoder functions proved equal to recursive specs + round-trip and printability lemmas over those specs",
    "text": "Unbounded proof over all byte strings: the real encoder and decoders equal their spec functions, and decode(encode(bs)) == bs, all output chars printable.",
    "design_ref": "DESIGN.md §5 C11", "note": VX_NOTE}
LEVELS["C06"] = {"category": "proof", "technique": "Verus postconditions on extracted extract_code_block_start and MarkdownIterator::next (token conservation), @expr on MarkdownParser::parse",
    "text": "Unbounded proof over all lines / all documents (as sequences of lines) of the Markdown tokenizer: what is a fence, where a block ends, that every consumed line is in the returned token "
            "with its number, that all str slicing is on char boundaries. Partial: the parser on top of the tokenizer (titles, body grammar, YAML) is out of reach and stated as not decided.",
    "design_ref": "DESIGN.md §5 C06", "note": VX_NOTE}
LEVELS["C08"] = {"category": "proof", "technique": "Verus postconditions on extracted ExpectationMaker::extract/parse/make and Rule::to_expression_string; uniqueness and round-trip lemmas",
    "text": "Unbounded proof over all lines (without line feed) and all registries with plain-word names: how a line is split into expression / kind / quantifier, what the quantifier means, "
            "and that the canonical rendering reads back as the same parts. Partial: the regular expression itself is a trusted contract (cross-checked bounded), rule makers are opaque.",
    "design_ref": "DESIGN.md §5 C08", "note": VX_NOTE}
LEVELS["C09"] = {"category": "proof", "technique": "Verus postconditions on extracted generators/outcome.rs and OutputStream::to_output_string; read-back lemmas over the C08 grammar and the C04 rule kinds",
    "text": "Unbounded proof over all outcomes: what is written, and that every written output line reads back as an expectation matching exactly that line. Partial: body-line classification by "
            "LineParser and the document formats only by a bounded end-to-end enumeration labelled as such (with two known findings).",
    "design_ref": "DESIGN.md §5 C09", "note": VX_NOTE}
LEVELS["C15"] = {"category": "proof", "technique": "Verus postconditions on extracted TestCaseConfig::get_skip_document_code and the two format defaults",
    "text": "Unbounded (trivially: no loop) proof of which code is the skip code. A small part of C15; that the executors report a document as skipped exactly for that code only by a bounded "
            "enumeration over real bash executions, labelled as such; the reporting in the binary is not decided.",
    "design_ref": "DESIGN.md §5 C15", "note": VX_NOTE}
LEVELS["C19"] = {"category": "proof", "technique": "Verus postcondition on extracted space_start_index and the two slicing expressions of higlight_tailing_spaces (char-boundary theory of prelude_str.rs)",
    "text": "Unbounded proof over all lines that the trailing-whitespace highlighter of the pretty renderer slices at char boundaries (no panic). A small part of C19; the rest only by a bounded "
            "enumeration over all five renderers, labelled as such.",
    "design_ref": "DESIGN.md §5 C19", "note": VX_NOTE}
LEVELS["C10"] = {"category": "proof", "technique": "Verus postconditions on extracted MarkdownUpdateGenerator::generate_update and has_command over the imported tokenizer contract; lemmas over upd_fold",
    "text": "Unbounded proof over all documents (as sequences of lines) and all outcome lists: what update writes, token by token; lines outside scrut blocks kept in order, blocks keep language, "
            "configuration and comments, nothing truncated, no index out of bounds. Partial: idempotence / re-parsing of the output only by a bounded enumeration labelled as such.",
    "design_ref": "DESIGN.md §5 C10", "note": VX_NOTE}
LEVELS["C13"] = {"category": "proof", "technique": "Verus postconditions on extracted newline::replace_crlf and TestCase::render_output",
    "text": "Unbounded proof over all byte strings of the two documented output transformations (CRLF -> LF unless keep_crlf; ANSI stripping only when asked). "
            "Partial: command transmission and byte-exact capture through bash/subprocess are out of reach and stated as not decided.",
    "design_ref": "DESIGN.md §5 C13", "note": VX_NOTE}
LEVELS["C07"] = {"category": "proof", "technique": "Verus: LineParser methods and CramParser::parse proved equal to a line-by-line document semantics; statement-level lemma over that semantics",
    "text": "Unbounded refinement proof over all documents (as sequences of lines): the real parser returns exactly the test cases of the line semantics cram_doc, an error iff it has one; "
            "and every accepted document yields one test per indented `$` line, in order, with the Cram defaults and its 1-based line number.",
    "design_ref": "DESIGN.md §5 C07", "note": VX_NOTE}

NOT_APPLICABLE = [
    {"property_id": "C12", "reason": "a property of bash executing bash_runner.template; no Rust function's postcondition can state it (DESIGN §10)"},
    {"property_id": "C17", "reason": "reader is serde_yaml (external), writer is format!; an inverse law needs the parser's semantics (DESIGN §10)"},
    {"property_id": "C18", "reason": "filesystem effects and Drop of tempfile::TempDir across process exits; outside any function contract (DESIGN §10)"},
    {"property_id": "C20", "reason": "Args::run in commands/test.rs + main.rs over real executions: no function of it is within reach of a contract, and a bounded end-to-end run with nothing proved next to it would be a different technique (DESIGN §10)"},
]
