// ---- diff_lang.rs: specification of the expectation language and of a well-formed diff ---------
// Pure spec functions and lemmas (no executable code). The three top-level notions:
//   accepts(E, L)        membership of the line sequence L in  e1{q1} e2{q2} ... en{qn}        (C01, C03)
//   wf_prefix(D, E, L, ei, c)   conservation: D accounts for lines [0,c) and expectations [0,ei) (C02)
//   deterministic(E, L)  one-line-lookahead determinism                                          (C03)

pub open spec fn spec_matches(e: Expectation, line: Seq<u8>) -> bool { rule_matches(e.rule, line) }

// ------------------------------------------------------------------ spec
pub open spec fn is_run(r: Seq<(usize, Vec<u8>)>, out: Seq<Seq<u8>>, a: int, b: int) -> bool {
    &&& 0 <= a <= b <= out.len()
    &&& r.len() == b - a
    &&& forall|k: int| 0 <= k < r.len() ==> (#[trigger] r[k]).0 == a + k && r[k].1@ == out[a + k]
}
pub open spec fn d_lines(d: DiffLine) -> Seq<(usize, Vec<u8>)> {
    match d {
        DiffLine::MatchedExpectation { lines, .. } => lines@,
        DiffLine::UnexpectedLines { lines } => lines@,
        _ => Seq::empty(),
    }
}
pub open spec fn last_line(t: Seq<DiffLine>) -> int decreases t.len() {
    if t.len() == 0 { 0 } else { last_line(t.drop_last()) + d_lines(t.last()).len() }
}
pub open spec fn runs_ok(t: Seq<DiffLine>, out: Seq<Seq<u8>>) -> bool decreases t.len() {
    if t.len() == 0 { true } else {
        runs_ok(t.drop_last(), out) && is_run(d_lines(t.last()), out, last_line(t.drop_last()), last_line(t))
    }
}
pub open spec fn d_exp(d: DiffLine) -> Option<int> {
    match d {
        DiffLine::MatchedExpectation { index, .. } => Some(index as int),
        DiffLine::UnmatchedExpectation { index, .. } => Some(index as int),
        _ => None,
    }
}
pub open spec fn last_exp(t: Seq<DiffLine>) -> int decreases t.len() {
    if t.len() == 0 { 0 } else if d_exp(t.last()) is Some { d_exp(t.last())->0 + 1 } else { last_exp(t.drop_last()) }
}
pub open spec fn all_optional(exps: Seq<Expectation>, a: int, b: int) -> bool {
    forall|k: int| a <= k < b && 0 <= k < exps.len() ==> (#[trigger] exps[k]).optional
}
pub open spec fn exps_ok(t: Seq<DiffLine>, exps: Seq<Expectation>) -> bool decreases t.len() {
    if t.len() == 0 { true } else {
        exps_ok(t.drop_last(), exps) && (d_exp(t.last()) is Some ==> {
            let e = d_exp(t.last())->0;
            last_exp(t.drop_last()) <= e < exps.len() && all_optional(exps, last_exp(t.drop_last()), e)
        })
    }
}
pub open spec fn entry_ok(d: DiffLine, exps: Seq<Expectation>) -> bool {
    match d {
        DiffLine::MatchedExpectation { index, expectation, lines } =>
            index < exps.len() && expectation == exps[index as int] && lines@.len() >= 1
            && (!exps[index as int].multiline ==> lines@.len() == 1)
            && forall|k: int| 0 <= k < lines@.len() ==> spec_matches(exps[index as int], (#[trigger] lines@[k]).1@),
        DiffLine::UnmatchedExpectation { index, expectation } =>
            index < exps.len() && expectation == exps[index as int] && !exps[index as int].optional,
        DiffLine::UnexpectedLines { lines } => lines@.len() >= 1,
    }
}
/// C02: everything the result must satisfy, given the cursors reached
pub open spec fn wf_prefix(t: Seq<DiffLine>, exps: Seq<Expectation>, out: Seq<Seq<u8>>, ei: int, committed: int) -> bool {
    &&& runs_ok(t, out)
    &&& exps_ok(t, exps)
    &&& forall|p: int| 0 <= p < t.len() ==> entry_ok(#[trigger] t[p], exps)
    &&& last_line(t) == committed
    &&& last_exp(t) <= ei <= exps.len()
    &&& all_optional(exps, last_exp(t), ei)
}
pub proof fn lemma_push(t: Seq<DiffLine>, d: DiffLine, exps: Seq<Expectation>, out: Seq<Seq<u8>>)
    ensures
        last_line(t.push(d)) == last_line(t) + d_lines(d).len(),
        runs_ok(t.push(d), out) == (runs_ok(t, out) && is_run(d_lines(d), out, last_line(t), last_line(t) + d_lines(d).len())),
        last_exp(t.push(d)) == (if d_exp(d) is Some { d_exp(d)->0 + 1 } else { last_exp(t) }),
        exps_ok(t.push(d), exps) == (exps_ok(t, exps) && (d_exp(d) is Some ==>
            last_exp(t) <= d_exp(d)->0 < exps.len() && all_optional(exps, last_exp(t), d_exp(d)->0))),
{
    assert(t.push(d).drop_last() =~= t);
    assert(t.push(d).last() == d);
}


// ------------------------------------------------------------------ C01: language membership
pub open spec fn acc(exps: Seq<Expectation>, out: Seq<Seq<u8>>, i: int, used: bool, j: int) -> bool
    decreases exps.len() - i, out.len() - j
{
    if i < 0 || j < 0 || j > out.len() { false }
    else if i >= exps.len() { j == out.len() }
    else {
        ((used || exps[i].optional) && acc(exps, out, i + 1, false, j))
        || (j < out.len() && spec_matches(exps[i], out[j]) && (!used || exps[i].multiline) && acc(exps, out, i, true, j + 1))
    }
}
pub open spec fn accepts(exps: Seq<Expectation>, out: Seq<Seq<u8>>) -> bool { acc(exps, out, 0, false, 0) }
pub open spec fn all_matched(t: Seq<DiffLine>) -> bool {
    forall|p: int| 0 <= p < t.len() ==> (#[trigger] t[p]) is MatchedExpectation
}

/// skipping a block of optional expectations
proof fn lemma_skip(exps: Seq<Expectation>, out: Seq<Seq<u8>>, a: int, b: int, j: int)
    requires 0 <= a <= b <= exps.len(), 0 <= j <= out.len(), all_optional(exps, a, b), acc(exps, out, b, false, j),
    ensures acc(exps, out, a, false, j),
    decreases b - a
{
    if a < b {
        lemma_skip(exps, out, a + 1, b, j);
        assert(exps[a].optional);
    }
}
/// consuming lines [j, b) with expectation e (already used or not), then moving on
proof fn lemma_take(exps: Seq<Expectation>, out: Seq<Seq<u8>>, e: int, a: int, j: int, b: int)
    requires 0 <= e < exps.len(), 0 <= a <= j <= b <= out.len(), a < b,
        forall|k: int| a <= k < b ==> spec_matches(exps[e], (#[trigger] out[k])),
        b - a > 1 ==> exps[e].multiline,
        acc(exps, out, e + 1, false, b),
    ensures acc(exps, out, e, j > a, j),
    decreases b - j
{
    if j == b {
        // used, skip to e+1
        assert(acc(exps, out, e, true, b));
    } else {
        lemma_take(exps, out, e, a, j + 1, b);
        assert(spec_matches(exps[e], out[j]));
        assert(j > a ==> exps[e].multiline);
    }
}
proof fn lemma_prefix_facts(t: Seq<DiffLine>, exps: Seq<Expectation>, out: Seq<Seq<u8>>, k: int)
    requires 0 <= k <= t.len(), runs_ok(t, out), exps_ok(t, exps),
    ensures runs_ok(t.take(k), out), exps_ok(t.take(k), exps),
    decreases t.len() - k
{
    if k < t.len() {
        assert(t.drop_last().take(k) =~= t.take(k));
        lemma_prefix_facts(t.drop_last(), exps, out, k);
    } else {
        assert(t.take(k) =~= t);
    }
}
/// the main induction: from the cursor after the first k entries, the rest is accepted
proof fn lemma_sound_from(t: Seq<DiffLine>, exps: Seq<Expectation>, out: Seq<Seq<u8>>, k: int)
    requires 0 <= k <= t.len(), wf_prefix(t, exps, out, exps.len() as int, out.len() as int), all_matched(t),
    ensures acc(exps, out, last_exp(t.take(k)), false, last_line(t.take(k))),
    decreases t.len() - k
{
    lemma_prefix_facts(t, exps, out, k);
    lemma_bounds(t.take(k), exps, out);
    if k == t.len() {
        assert(t.take(k) =~= t);
        lemma_skip(exps, out, last_exp(t), exps.len() as int, out.len() as int);
    } else {
        lemma_sound_from(t, exps, out, k + 1);
        lemma_prefix_facts(t, exps, out, k + 1);
        let p = t.take(k); let q = t.take(k + 1); let d = t[k];
        assert(q.drop_last() =~= p);
        assert(q.last() == d);
        assert(d is MatchedExpectation);
        assert(entry_ok(d, exps));
        let e = d_exp(d)->0;
        let a = last_line(p); let b = last_line(q);
        assert(is_run(d_lines(d), out, a, b));
        assert forall|kk: int| a <= kk < b implies spec_matches(exps[e], (#[trigger] out[kk])) by {
            assert(d_lines(d)[kk - a].1@ == out[kk]);
        }
        lemma_take(exps, out, e, a, a, b);
        lemma_skip(exps, out, last_exp(p), e, a);
    }
}
proof fn lemma_bounds(t: Seq<DiffLine>, exps: Seq<Expectation>, out: Seq<Seq<u8>>)
    requires runs_ok(t, out), exps_ok(t, exps),
    ensures 0 <= last_exp(t) <= exps.len(), 0 <= last_line(t) <= out.len(),
    decreases t.len()
{
    if t.len() > 0 { lemma_bounds(t.drop_last(), exps, out); }
}
pub proof fn lemma_C01_sound(t: Seq<DiffLine>, exps: Seq<Expectation>, out: Seq<Seq<u8>>)
    requires wf_prefix(t, exps, out, exps.len() as int, out.len() as int), all_matched(t),
    ensures accepts(exps, out),
{
    lemma_sound_from(t, exps, out, 0);
    assert(t.take(0) =~= Seq::<DiffLine>::empty());
}

// ------------------------------------------------------------------ C03: completeness under determinism
pub open spec fn in_next(exps: Seq<Expectation>, i: int, used: bool, k: int) -> bool {
    0 <= i < exps.len() && (
        (k == i && (!used || exps[i].multiline))
        || (i < k < exps.len() && (used || exps[i].optional) && all_optional(exps, i + 1, k)))
}
pub open spec fn deterministic(exps: Seq<Expectation>, out: Seq<Seq<u8>>) -> bool {
    forall|i: int, used: bool, j: int, k1: int, k2: int|
        0 <= j < out.len() && #[trigger] in_next(exps, i, used, k1) && #[trigger] in_next(exps, i, used, k2)
        && #[trigger] spec_matches(exps[k1], out[j]) && spec_matches(exps[k2], out[j]) ==> k1 == k2
}
proof fn lemma_det(exps: Seq<Expectation>, out: Seq<Seq<u8>>, i: int, used: bool, j: int, k1: int, k2: int)
    requires deterministic(exps, out), 0 <= j < out.len(), in_next(exps, i, used, k1), in_next(exps, i, used, k2),
        spec_matches(exps[k1], out[j]), spec_matches(exps[k2], out[j]),
    ensures k1 == k2
{}
proof fn lemma_next(exps: Seq<Expectation>, out: Seq<Seq<u8>>, i: int, j: int) -> (t: int)
    requires acc(exps, out, i, false, j), 0 <= i, 0 <= j < out.len(),
    ensures i <= t < exps.len(), all_optional(exps, i, t), spec_matches(exps[t], out[j]), acc(exps, out, t, true, j + 1),
    decreases exps.len() - i
{
    if spec_matches(exps[i], out[j]) && acc(exps, out, i, true, j + 1) { i }
    else { let t = lemma_next(exps, out, i + 1, j); t }
}
proof fn lemma_tail_optional(exps: Seq<Expectation>, out: Seq<Seq<u8>>, i: int)
    requires acc(exps, out, i, false, out.len() as int), 0 <= i <= exps.len(),
    ensures all_optional(exps, i, exps.len() as int),
    decreases exps.len() - i
{
    if i < exps.len() { lemma_tail_optional(exps, out, i + 1); }
}
proof fn lemma_case_take(exps: Seq<Expectation>, out: Seq<Seq<u8>>, ei: int, used: bool, li: int)
    requires deterministic(exps, out), acc(exps, out, ei, used, li), 0 <= ei < exps.len(), 0 <= li < out.len(),
        spec_matches(exps[ei], out[li]), !used || exps[ei].multiline,
    ensures acc(exps, out, ei, true, li + 1),
{
    if (used || exps[ei].optional) && acc(exps, out, ei + 1, false, li) {
        if !(spec_matches(exps[ei], out[li]) && (!used || exps[ei].multiline) && acc(exps, out, ei, true, li + 1)) {
            let t = lemma_next(exps, out, ei + 1, li);
            assert(in_next(exps, ei, used, t));
            assert(in_next(exps, ei, used, ei));
            lemma_det(exps, out, ei, used, li, t, ei);
        }
    }
}
proof fn lemma_case_yield_absurd(exps: Seq<Expectation>, out: Seq<Seq<u8>>, ei: int, used: bool, li: int)
    requires deterministic(exps, out), 0 <= ei, ei + 1 < exps.len(), 0 <= li < out.len(),
        spec_matches(exps[ei], out[li]), spec_matches(exps[ei + 1], out[li]), exps[ei].multiline, used || exps[ei].optional,
    ensures false,
{
    assert(in_next(exps, ei, used, ei));
    assert(in_next(exps, ei, used, ei + 1));
    lemma_det(exps, out, ei, used, li, ei, ei + 1);
}
proof fn lemma_case_peek(exps: Seq<Expectation>, out: Seq<Seq<u8>>, ei: int, li: int, k: int)
    requires deterministic(exps, out), acc(exps, out, ei, false, li), 0 <= ei < exps.len(), 0 <= li < out.len(),
        !spec_matches(exps[ei], out[li]), ei < k < exps.len(), spec_matches(exps[k], out[li]),
        forall|x: int| ei < x < k ==> !spec_matches(#[trigger] exps[x], out[li]),
    ensures all_optional(exps, ei, k), acc(exps, out, k, false, li),
{
    let t = lemma_next(exps, out, ei + 1, li);
    assert(exps[ei].optional);
    if t < k { assert(!spec_matches(exps[t], out[li])); }
    if k < t {
        assert(in_next(exps, ei, false, t));
        assert(in_next(exps, ei, false, k));
        lemma_det(exps, out, ei, false, li, t, k);
    }
}
proof fn lemma_case_nopeek(exps: Seq<Expectation>, out: Seq<Seq<u8>>, ei: int, li: int)
    requires acc(exps, out, ei, false, li), 0 <= ei < exps.len(), 0 <= li < out.len(),
        !spec_matches(exps[ei], out[li]),
        forall|x: int| ei < x < exps.len() ==> !spec_matches(#[trigger] exps[x], out[li]),
    ensures false,
{
    let t = lemma_next(exps, out, ei + 1, li);
}
proof fn lemma_all_matched_push(t: Seq<DiffLine>, d: DiffLine)
    requires all_matched(t), d is MatchedExpectation,
    ensures all_matched(t.push(d)),
{
    assert forall|p: int| 0 <= p < t.push(d).len() implies (#[trigger] t.push(d)[p]) is MatchedExpectation by {
        if p < t.len() { assert(t.push(d)[p] == t[p]); }
    }
}
/// what the loop maintains for C03
pub open spec fn c03_inv(t: Seq<DiffLine>, exps: Seq<Expectation>, out: Seq<Seq<u8>>, ei: int, used: bool, li: int) -> bool {
    (deterministic(exps, out) && accepts(exps, out)) ==> (all_matched(t) && acc(exps, out, ei, used, li))
}


// ------------------------------------------------------------------ anchor-free step lemmas
// Everything the C03 argument needs about one loop iteration, as implications, so that the
// sidecar can call ONE lemma at the head of the loop body instead of one per branch.
pub proof fn lemma_c03_cases(exps: Seq<Expectation>, out: Seq<Seq<u8>>, ei: int, used: bool, li: int)
    requires deterministic(exps, out), acc(exps, out, ei, used, li), 0 <= ei < exps.len(), 0 <= li < out.len(),
        used ==> exps[ei].multiline,
    ensures
        spec_matches(exps[ei], out[li]) ==> acc(exps, out, ei, true, li + 1),
        !(spec_matches(exps[ei], out[li]) && exps[ei].multiline && (used || exps[ei].optional)
            && ei + 1 < exps.len() && spec_matches(exps[ei + 1], out[li])),
        !spec_matches(exps[ei], out[li]) && used ==> acc(exps, out, ei + 1, false, li),
        forall|k: int| !used && !spec_matches(exps[ei], out[li]) && ei < k < exps.len()
            && #[trigger] spec_matches(exps[k], out[li])
            && (forall|x: int| ei < x < k ==> !spec_matches(#[trigger] exps[x], out[li]))
            ==> all_optional(exps, ei, k) && acc(exps, out, k, false, li),
        !(!used && !spec_matches(exps[ei], out[li])
            && (forall|x: int| ei < x < exps.len() ==> !spec_matches(#[trigger] exps[x], out[li]))),
{
    if spec_matches(exps[ei], out[li]) {
        lemma_case_take(exps, out, ei, used, li);
        if exps[ei].multiline && (used || exps[ei].optional) && ei + 1 < exps.len() && spec_matches(exps[ei + 1], out[li]) {
            lemma_case_yield_absurd(exps, out, ei, used, li);
        }
    } else if !used {
        assert forall|k: int| ei < k < exps.len()
            && #[trigger] spec_matches(exps[k], out[li])
            && (forall|x: int| ei < x < k ==> !spec_matches(#[trigger] exps[x], out[li]))
            implies all_optional(exps, ei, k) && acc(exps, out, k, false, li) by {
            lemma_case_peek(exps, out, ei, li, k);
        }
        if forall|x: int| ei < x < exps.len() ==> !spec_matches(#[trigger] exps[x], out[li]) {
            lemma_case_nopeek(exps, out, ei, li);
        }
    }
}
/// push of a Matched entry keeps all_matched (no precondition: usable after every push)
pub proof fn lemma_all_matched_push_if(t: Seq<DiffLine>, d: DiffLine)
    ensures all_matched(t) && d is MatchedExpectation ==> all_matched(t.push(d)),
{
    if all_matched(t) && d is MatchedExpectation { lemma_all_matched_push(t, d); }
}
/// after the main loop, under the C03 hypothesis
pub proof fn lemma_c03_tail(exps: Seq<Expectation>, out: Seq<Seq<u8>>, ei: int, li: int)
    requires acc(exps, out, ei, false, li), 0 <= ei <= exps.len(), 0 <= li <= out.len(), ei == exps.len() || li == out.len(),
    ensures li == out.len(), all_optional(exps, ei, exps.len() as int),
{
    if li == out.len() { lemma_tail_optional(exps, out, ei); }
}

// ------------------------------------------------------------------ lines of a byte stream
pub open spec fn views(s: Seq<&[u8]>) -> Seq<Seq<u8>> { Seq::new(s.len(), |i: int| s[i]@) }
pub open spec fn concat(l: Seq<Seq<u8>>) -> Seq<u8> decreases l.len() {
    if l.len() == 0 { Seq::empty() } else { concat(l.drop_last()) + l.last() }
}
/// a complete line: non-empty, ends in LF, no LF before the end
pub open spec fn full_line(x: Seq<u8>) -> bool {
    x.len() >= 1 && x.last() == 10u8 && forall|k: int| 0 <= k < x.len() - 1 ==> x[k] != 10u8
}
/// L is *the* split of b after every LF: the lines concatenate back to b, every line but the last
/// is a full line, the last one is non-empty and has no LF except possibly as its final byte
pub open spec fn is_split(l: Seq<Seq<u8>>, b: Seq<u8>) -> bool {
    &&& concat(l) == b
    &&& forall|i: int| 0 <= i < l.len() - 1 ==> full_line(#[trigger] l[i])
    &&& l.len() > 0 ==> l.last().len() >= 1 && forall|k: int| 0 <= k < l.last().len() - 1 ==> l.last()[k] != 10u8
}
pub proof fn lemma_concat_push(l: Seq<Seq<u8>>, x: Seq<u8>)
    ensures concat(l.push(x)) == concat(l) + x
{
    assert(l.push(x).drop_last() =~= l);
}
pub proof fn lemma_views_push(old: Seq<&[u8]>, x: &[u8])
    ensures views(old.push(x)) == views(old).push(x@),
        concat(views(old.push(x))) == concat(views(old)) + x@,
{
    assert(views(old.push(x)) =~= views(old).push(x@));
    lemma_concat_push(views(old), x@);
}
pub proof fn lemma_all_matched_push_iff(t: Seq<DiffLine>, d: DiffLine)
    ensures all_matched(t.push(d)) == (all_matched(t) && d is MatchedExpectation),
{
    if all_matched(t) && d is MatchedExpectation { lemma_all_matched_push(t, d); }
    if all_matched(t.push(d)) {
        assert(t.push(d)[t.len() as int] == d);
        assert forall|p: int| 0 <= p < t.len() implies (#[trigger] t[p]) is MatchedExpectation by {
            assert(t.push(d)[p] == t[p]);
        }
    }
}
pub open spec fn c03_hyp(exps: Seq<Expectation>, out: Seq<Seq<u8>>) -> bool {
    deterministic(exps, out) && accepts(exps, out)
}

// ------------------------------------------------------------------ the split of a byte string is unique
// ---- uniqueness
/// a non-empty split's concatenation: if there is a previous line, the byte just before the last line is LF
proof fn lemma_before_last(l: Seq<Seq<u8>>, b: Seq<u8>)
    requires is_split(l, b), l.len() >= 2,
    ensures b.len() > l.last().len(), b[b.len() - l.last().len() - 1] == 10u8,
{
    let init = l.drop_last();
    let p = init.last();
    assert(p == l[l.len() - 2]);
    assert(full_line(p));
    assert(concat(init) == concat(init.drop_last()) + p);
    let c = concat(init);
    assert(c.len() >= 1 && c.last() == 10u8) by {
        assert(c[c.len() - 1] == p[p.len() - 1]);
    }
    assert(b == c + l.last());
    assert(b[c.len() - 1] == c[c.len() - 1]);
}
proof fn lemma_concat_len(l: Seq<Seq<u8>>)
    ensures concat(l).len() >= (if l.len() > 0 { l.last().len() } else { 0 }),
{
}
proof fn lemma_init_is_split(l: Seq<Seq<u8>>, b: Seq<u8>)
    requires is_split(l, b), l.len() >= 1,
    ensures is_split(l.drop_last(), concat(l.drop_last())),
{
    let init = l.drop_last();
    assert forall|i: int| 0 <= i < init.len() - 1 implies full_line(#[trigger] init[i]) by { assert(init[i] == l[i]); }
    if init.len() > 0 {
        assert(init.last() == l[l.len() - 2]);
        assert(full_line(init.last()));
    }
}
pub proof fn lemma_split_unique(l1: Seq<Seq<u8>>, l2: Seq<Seq<u8>>, b: Seq<u8>)
    requires is_split(l1, b), is_split(l2, b),
    ensures l1 =~= l2,
    decreases l1.len()
{
    if l1.len() == 0 {
        if l2.len() > 0 { lemma_concat_len(l2); assert(false); }
    } else if l2.len() == 0 {
        lemma_concat_len(l1); assert(false);
    } else {
        let a1 = l1.last(); let a2 = l2.last();
        let c1 = concat(l1.drop_last()); let c2 = concat(l2.drop_last());
        assert(b == c1 + a1); assert(b == c2 + a2);
        // the last lines have the same length
        if a1.len() < a2.len() {
            // position of the byte before a1 lies strictly inside a2 (not its last byte): must not be LF
            if l1.len() >= 2 {
                lemma_before_last(l1, b);
                let p = b.len() - a1.len() - 1;
                assert(p >= c2.len()) by { assert(c2.len() == b.len() - a2.len()); }
                let k = p - c2.len();
                assert(0 <= k < a2.len() - 1);
                assert(b[p] == a2[k]);
                assert(false);
            } else {
                assert(l1.drop_last().len() == 0);
                assert(c1.len() == 0);
                assert(b.len() == a1.len());
                assert(b.len() >= a2.len());
                assert(false);
            }
        } else if a2.len() < a1.len() {
            if l2.len() >= 2 {
                lemma_before_last(l2, b);
                let p = b.len() - a2.len() - 1;
                assert(c1.len() == b.len() - a1.len());
                let k = p - c1.len();
                assert(0 <= k < a1.len() - 1);
                assert(b[p] == a1[k]);
                assert(false);
            } else {
                assert(c2.len() == 0);
                assert(b.len() == a2.len());
                assert(false);
            }
        }
        assert(a1.len() == a2.len());
        assert(c1.len() == c2.len());
        assert(a1 =~= a2) by {
            assert forall|k: int| 0 <= k < a1.len() implies a1[k] == a2[k] by {
                assert(b[c1.len() + k] == a1[k]); assert(b[c2.len() + k] == a2[k]);
            }
        }
        assert(c1 =~= c2) by {
            assert forall|k: int| 0 <= k < c1.len() implies c1[k] == c2[k] by {
                assert(b[k] == c1[k]); assert(b[k] == c2[k]);
            }
        }
        lemma_init_is_split(l1, b); lemma_init_is_split(l2, b);
        lemma_split_unique(l1.drop_last(), l2.drop_last(), c1);
        assert(l1 =~= l1.drop_last().push(a1));
        assert(l2 =~= l2.drop_last().push(a2));
    }
}

/// THE lines of a byte stream
pub open spec fn lines_of(b: Seq<u8>) -> Seq<Seq<u8>> { choose|l: Seq<Seq<u8>>| is_split(l, b) }
pub proof fn lemma_lines_of(l: Seq<Seq<u8>>, b: Seq<u8>)
    requires is_split(l, b),
    ensures lines_of(b) == l,
{
    lemma_split_unique(lines_of(b), l, b);
}
