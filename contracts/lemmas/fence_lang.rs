// ---- fence_lang.rs: the fence the generators choose for a test block (C10 / C09)
pub open spec fn max_int(a: int, b: int) -> int { if a >= b { a } else { b } }
/// the longest run of backticks at the start of any of the first k lines, at least 2
pub open spec fn mt(ls: Seq<Seq<char>>, k: int) -> int decreases k {
    if k <= 0 { 2 } else { max_int(tick_run(ls[k - 1]), mt(ls, k - 1)) }
}
pub proof fn lemma_mt_bound(ls: Seq<Seq<char>>, k: int, j: int)
    requires 0 <= j < k <= ls.len(),
    ensures tick_run(ls[j]) <= mt(ls, k), mt(ls, k) >= 2,
    decreases k
{
    if j < k - 1 { lemma_mt_bound(ls, k - 1, j); } else if k > 1 { lemma_mt_bound(ls, k - 1, 0); }
}
pub proof fn lemma_tick_run_nonneg(l: Seq<char>) ensures tick_run(l) >= 0 decreases l.len() {
    if l.len() > 0 && l[0] == '`' { lemma_tick_run_nonneg(l.skip(1)); }
}
/// a line that starts with n backticks has a backtick run of at least n
pub proof fn lemma_tick_prefix(l: Seq<char>, n: nat)
    requires is_prefix_of(Seq::new(n, |i: int| '`'), l),
    ensures tick_run(l) >= n,
    decreases n
{
    if n > 0 {
        let f = Seq::new(n, |i: int| '`');
        assert(l.subrange(0, n as int) == f);
        assert(l[0] == l.subrange(0, n as int)[0]);
        let t = l.skip(1);
        let g = Seq::new((n - 1) as nat, |i: int| '`');
        assert forall|i: int| 0 <= i < n - 1 implies #[trigger] t[i] == '`' by { assert(t[i] == l[i + 1]); assert(l[i + 1] == l.subrange(0, n as int)[i + 1]); assert(f[i + 1] == '`'); }
        assert(t.subrange(0, n - 1) =~= g);
        assert(is_prefix_of(g, t));
        assert(l.len() > 0 && l[0] == '`') by { assert(f[0] == '`'); }
        assert(tick_run(l) == 1 + tick_run(t));
        lemma_tick_prefix(t, (n - 1) as nat);
    } else { lemma_tick_run_nonneg(l); }
}
/// the chosen fence (one backtick more than the longest run) is not the start of any line of the body: the block cannot be closed
/// early by its own content
pub proof fn lemma_fence_safe(ls: Seq<Seq<char>>, j: int)
    requires 0 <= j < ls.len(),
    ensures !is_prefix_of(Seq::new((mt(ls, ls.len() as int) + 1) as nat, |i: int| '`'), ls[j]),
{
    lemma_mt_bound(ls, ls.len() as int, j);
    let n = (mt(ls, ls.len() as int) + 1) as nat;
    if is_prefix_of(Seq::new(n, |i: int| '`'), ls[j]) { lemma_tick_prefix(ls[j], n); }
}
/// generators/markdown.rs::max_backtick_size as a function of the block text
pub open spec fn max_ticks(s: Seq<char>) -> nat { mt(str_lines_md(s), str_lines_md(s).len() as int) as nat }
