// ---- config_laws.rs: what "layering" means (C16), and its algebraic laws as lemmas over the contracts

/// r is `hi` layered over `lo`: every key, and every individual environment variable, comes from
/// the highest layer that sets it
pub open spec fn tc_layer(hi: TestCaseConfig, lo: TestCaseConfig, r: TestCaseConfig) -> bool {
    tc_fields(hi, lo, r) && env_layer(hi.environment@, lo.environment@, r.environment@)
}
pub open spec fn tc_fields(hi: TestCaseConfig, lo: TestCaseConfig, r: TestCaseConfig) -> bool {
    &&& r.output_stream == pick(hi.output_stream, lo.output_stream)
    &&& r.keep_crlf == pick(hi.keep_crlf, lo.keep_crlf)
    &&& r.timeout == pick(hi.timeout, lo.timeout)
    &&& r.detached == pick(hi.detached, lo.detached)
    &&& r.wait == pick(hi.wait, lo.wait)
    &&& r.skip_document_code == pick(hi.skip_document_code, lo.skip_document_code)
    &&& r.strip_ansi_escaping == pick(hi.strip_ansi_escaping, lo.strip_ansi_escaping)
}
/// per variable: present iff present in either layer; value from `hi` when `hi` sets it, else from `lo`
pub open spec fn env_layer(hi: Map<String, String>, lo: Map<String, String>, r: Map<String, String>) -> bool {
    &&& forall|k: String| #![auto] r.dom().contains(k) <==> (hi.dom().contains(k) || lo.dom().contains(k))
    &&& forall|k: String| #![auto] hi.dom().contains(k) ==> r[k] == hi[k]
    &&& forall|k: String| #![auto] !hi.dom().contains(k) && lo.dom().contains(k) ==> r[k] == lo[k]
}
pub open spec fn doc_layer(hi: DocumentConfig, lo: DocumentConfig, r: DocumentConfig) -> bool {
    &&& r.append@ == lo.append@ + hi.append@
    &&& r.prepend@ == hi.prepend@ + lo.prepend@
    &&& tc_layer(hi.defaults, lo.defaults, r.defaults)
    &&& r.shell == pick(hi.shell, lo.shell)
    &&& r.total_timeout == pick(hi.total_timeout, lo.total_timeout)
}

// ------------------------------------------------------------------ laws (pure lemmas over the contracts)
pub open spec fn tc_same(x: TestCaseConfig, y: TestCaseConfig) -> bool {
    &&& x.output_stream == y.output_stream &&& x.keep_crlf == y.keep_crlf &&& x.timeout == y.timeout
    &&& x.detached == y.detached &&& x.wait == y.wait &&& x.skip_document_code == y.skip_document_code
    &&& x.strip_ansi_escaping == y.strip_ansi_escaping &&& x.environment@ =~= y.environment@
}
pub open spec fn tc_unset(e: TestCaseConfig) -> bool {
    &&& e.output_stream is None &&& e.keep_crlf is None &&& e.timeout is None &&& e.detached is None
    &&& e.wait is None &&& e.skip_document_code is None &&& e.strip_ansi_escaping is None
    &&& e.environment@.dom() =~= Set::<String>::empty()
}
/// layering is associative: (a over b) over c  ==  a over (b over c)
pub proof fn lemma_tc_assoc(a: TestCaseConfig, b: TestCaseConfig, c: TestCaseConfig,
        ab: TestCaseConfig, bc: TestCaseConfig, l: TestCaseConfig, r: TestCaseConfig)
    requires tc_layer(a, b, ab), tc_layer(ab, c, l), tc_layer(b, c, bc), tc_layer(a, bc, r),
    ensures tc_same(l, r),
{
    assert forall|k: String| l.environment@.dom().contains(k) == r.environment@.dom().contains(k) by {}
    assert forall|k: String| l.environment@.dom().contains(k) implies l.environment@[k] == r.environment@[k] by {
        if a.environment@.dom().contains(k) { assert(ab.environment@.dom().contains(k)); }
        else if b.environment@.dom().contains(k) { assert(ab.environment@.dom().contains(k)); assert(bc.environment@.dom().contains(k)); }
        else { assert(!ab.environment@.dom().contains(k)); assert(bc.environment@.dom().contains(k) == c.environment@.dom().contains(k)); }
    }
}
/// an empty layer changes nothing, on either side
pub proof fn lemma_tc_identity(a: TestCaseConfig, e: TestCaseConfig, r1: TestCaseConfig, r2: TestCaseConfig)
    requires tc_unset(e), tc_layer(a, e, r1), tc_layer(e, a, r2),
    ensures tc_same(r1, a), tc_same(r2, a),
{
    assert forall|k: String| !e.environment@.dom().contains(k) by {}
    assert forall|k: String| r1.environment@.dom().contains(k) == a.environment@.dom().contains(k) by {}
    assert forall|k: String| r2.environment@.dom().contains(k) == a.environment@.dom().contains(k) by {}
}
/// the four layers in the order the call sites apply them: command line > test case > document defaults > format.
/// Every key and every environment variable comes from the first layer that sets it.
pub open spec fn first4<T>(a: Option<T>, b: Option<T>, c: Option<T>, d: Option<T>) -> Option<T> {
    if a is Some { a } else if b is Some { b } else if c is Some { c } else { d }
}
pub proof fn lemma_four_layers(cli: TestCaseConfig, tc: TestCaseConfig, doc: TestCaseConfig, fmt: TestCaseConfig,
        x1: TestCaseConfig, x2: TestCaseConfig, r: TestCaseConfig)
    requires tc_layer(tc, doc, x1), tc_layer(x1, fmt, x2), tc_layer(cli, x2, r),
    ensures
        r.output_stream == first4(cli.output_stream, tc.output_stream, doc.output_stream, fmt.output_stream),
        r.keep_crlf == first4(cli.keep_crlf, tc.keep_crlf, doc.keep_crlf, fmt.keep_crlf),
        r.timeout == first4(cli.timeout, tc.timeout, doc.timeout, fmt.timeout),
        r.detached == first4(cli.detached, tc.detached, doc.detached, fmt.detached),
        r.wait == first4(cli.wait, tc.wait, doc.wait, fmt.wait),
        r.skip_document_code == first4(cli.skip_document_code, tc.skip_document_code, doc.skip_document_code, fmt.skip_document_code),
        r.strip_ansi_escaping == first4(cli.strip_ansi_escaping, tc.strip_ansi_escaping, doc.strip_ansi_escaping, fmt.strip_ansi_escaping),
        forall|k: String| #![auto] r.environment@.dom().contains(k) <==> (cli.environment@.dom().contains(k) || tc.environment@.dom().contains(k)
            || doc.environment@.dom().contains(k) || fmt.environment@.dom().contains(k)),
        forall|k: String| #![auto] r.environment@.dom().contains(k) ==> r.environment@[k] == (
            if cli.environment@.dom().contains(k) { cli.environment@[k] } else if tc.environment@.dom().contains(k) { tc.environment@[k] }
            else if doc.environment@.dom().contains(k) { doc.environment@[k] } else { fmt.environment@[k] }),
{
    assert forall|k: String| #![auto] r.environment@.dom().contains(k) implies r.environment@[k] == (
            if cli.environment@.dom().contains(k) { cli.environment@[k] } else if tc.environment@.dom().contains(k) { tc.environment@[k] }
            else if doc.environment@.dom().contains(k) { doc.environment@[k] } else { fmt.environment@[k] }) by {
        if !cli.environment@.dom().contains(k) {
            assert(x2.environment@.dom().contains(k));
            if tc.environment@.dom().contains(k) || doc.environment@.dom().contains(k) { assert(x1.environment@.dom().contains(k)); }
            else { assert(!x1.environment@.dom().contains(k)); }
        }
    }
    assert forall|k: String| #![auto] r.environment@.dom().contains(k) <==> (cli.environment@.dom().contains(k) || tc.environment@.dom().contains(k)
            || doc.environment@.dom().contains(k) || fmt.environment@.dom().contains(k)) by {
        assert(x1.environment@.dom().contains(k) <==> (tc.environment@.dom().contains(k) || doc.environment@.dom().contains(k)));
        assert(x2.environment@.dom().contains(k) <==> (x1.environment@.dom().contains(k) || fmt.environment@.dom().contains(k)));
    }
}
/// prepend/append accumulate in order instead of overriding, associatively
pub proof fn lemma_doc_lists_assoc(a: DocumentConfig, b: DocumentConfig, c: DocumentConfig,
        ab: DocumentConfig, bc: DocumentConfig, l: DocumentConfig, r: DocumentConfig)
    requires doc_layer(a, b, ab), doc_layer(ab, c, l), doc_layer(b, c, bc), doc_layer(a, bc, r),
    ensures l.append@ =~= r.append@, l.prepend@ =~= r.prepend@, l.shell == r.shell, l.total_timeout == r.total_timeout,
        l.append@ =~= c.append@ + b.append@ + a.append@, l.prepend@ =~= a.prepend@ + b.prepend@ + c.prepend@,
{}

pub open spec fn first3<T>(a: Option<T>, b: Option<T>, c: Option<T>) -> Option<T> {
    if a is Some { a } else if b is Some { b } else { c }
}
/// r is a over b over c (used for the call sites that compose the layers)
pub open spec fn tc_layer3(a: TestCaseConfig, b: TestCaseConfig, c: TestCaseConfig, r: TestCaseConfig) -> bool {
    &&& r.output_stream == first3(a.output_stream, b.output_stream, c.output_stream)
    &&& r.keep_crlf == first3(a.keep_crlf, b.keep_crlf, c.keep_crlf)
    &&& r.timeout == first3(a.timeout, b.timeout, c.timeout)
    &&& r.detached == first3(a.detached, b.detached, c.detached)
    &&& r.wait == first3(a.wait, b.wait, c.wait)
    &&& r.skip_document_code == first3(a.skip_document_code, b.skip_document_code, c.skip_document_code)
    &&& r.strip_ansi_escaping == first3(a.strip_ansi_escaping, b.strip_ansi_escaping, c.strip_ansi_escaping)
    &&& forall|k: String| #![auto] r.environment@.dom().contains(k) <==> (a.environment@.dom().contains(k) || b.environment@.dom().contains(k) || c.environment@.dom().contains(k))
    &&& forall|k: String| #![auto] r.environment@.dom().contains(k) ==> r.environment@[k] == (
            if a.environment@.dom().contains(k) { a.environment@[k] } else if b.environment@.dom().contains(k) { b.environment@[k] } else { c.environment@[k] })
}
