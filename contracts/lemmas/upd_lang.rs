// ---- upd_lang.rs: what `update` writes for a Markdown document (C10), token by token
/// the lines v[0..k), each terminated by a line feed
pub open spec fn lines_text(v: Seq<Seq<char>>, k: int) -> Seq<char> decreases k {
    if k <= 0 { Seq::empty() } else { lines_text(v, k - 1) + assure_nl(v[k - 1]) }
}
pub open spec fn ticks(n: nat) -> Seq<char> { Seq::new(n, |i: int| '`') }
/// the inline configuration is written back as ` {<text>}` (leading whitespace of the text dropped)
pub open spec fn cfg_text(config_lines: Seq<(usize, String)>) -> Seq<char> {
    if config_lines.len() == 0 { Seq::empty() } else { seq![' ', '{'] + str_trim_start(join_nl(numbered_texts(config_lines))) + seq!['}'] }
}
/// a test block: fence (one backtick more than the longest run in the body) + language + configuration, the comment lines, the
/// body, the closing fence
pub open spec fn upd_block(language: Seq<char>, config_lines: Seq<(usize, String)>, comment_lines: Seq<(usize, String)>, body: Seq<char>) -> Seq<char> {
    let b = ticks(max_ticks(body) + 1);
    b + language + cfg_text(config_lines) + seq!['\n'] + lines_text(numbered_texts(comment_lines), comment_lines.len() as int) + body + assure_nl(b)
}
pub open spec fn dashes_nl() -> Seq<char> { seq!['-', '-', '-', '\n'] }
/// the numbered lines, joined by line feeds and terminated by one (nothing for no lines)
pub open spec fn joined_nl(v: Seq<(usize, String)>) -> Seq<char> { if v.len() == 0 { Seq::empty() } else { join_nl(numbered_texts(v)).push('\n') } }
pub struct UpS { pub text: Seq<char>, pub idx: int }
/// what one token contributes: everything that is not a test is written back line by line; a scrut block WITH a command is the
/// next test case and gets the text generated for its outcome; a scrut block without a command is not a test case and keeps its lines
pub open spec fn upd_step(s: UpS, t: MarkdownToken, outs: Seq<&OpaqueOutcome>) -> Option<UpS> {
    match t {
        MarkdownToken::Line(_, line) => Some(UpS { text: s.text + assure_nl(line@), ..s }),
        MarkdownToken::DocumentConfig(v) =>
            Some(UpS { text: s.text + dashes_nl() + joined_nl(v@) + dashes_nl(), ..s }),
        MarkdownToken::VerbatimCodeBlock { starting_line_number, language, lines } =>
            Some(UpS { text: s.text + lines_text(strings_view(lines@), lines@.len() as int), ..s }),
        MarkdownToken::TestCodeBlock { language, config_lines, comment_lines, code_lines } =>
            if tok_has_cmd(t) {
                if 0 <= s.idx < outs.len() && gen_ok(*outs[s.idx]) {
                    Some(UpS { text: s.text + upd_block(language@, config_lines@, comment_lines@, gen_text(*outs[s.idx])), idx: s.idx + 1 })
                } else { None }
            } else {
                Some(UpS { text: s.text + upd_block(language@, config_lines@, comment_lines@, joined_nl(code_lines@)), ..s })
            },
    }
}
pub open spec fn upd_fold(toks: Seq<MarkdownToken>, k: int, outs: Seq<&OpaqueOutcome>) -> Option<UpS> decreases k {
    if k <= 0 { Some(UpS { text: Seq::empty(), idx: 0 }) }
    else { match upd_fold(toks, k - 1, outs) { None => None, Some(s) => upd_step(s, toks[k - 1], outs) } }
}
pub proof fn lemma_upd_fold_prefix(toks: Seq<MarkdownToken>, t: MarkdownToken, k: int, outs: Seq<&OpaqueOutcome>)
    requires 0 <= k <= toks.len(),
    ensures upd_fold(toks.push(t), k, outs) == upd_fold(toks, k, outs),
    decreases k
{
    if k > 0 { lemma_upd_fold_prefix(toks, t, k - 1, outs); assert(toks.push(t)[k - 1] == toks[k - 1]); }
}
/// the caller passes one outcome per test case of the document (= per scrut block with a command, lemma_md_doc)
pub open spec fn outcomes_enough(ls: Seq<Seq<char>>, langs: Seq<Seq<char>>, n: int) -> bool {
    forall|toks: Seq<MarkdownToken>, cuts: Seq<int>| #[trigger] tokenization(toks, cuts, ls, langs) ==> test_count(toks, toks.len() as int) <= n
}
pub proof fn lemma_test_count_prefix(toks: Seq<MarkdownToken>, t: MarkdownToken, k: int)
    requires 0 <= k <= toks.len(),
    ensures test_count(toks.push(t), k) == test_count(toks, k),
    decreases k
{
    if k > 0 { lemma_test_count_prefix(toks, t, k - 1); assert(toks.push(t)[k - 1] == toks[k - 1]); }
}
pub proof fn lemma_test_count_push(toks: Seq<MarkdownToken>, t: MarkdownToken)
    ensures test_count(toks.push(t), toks.len() as int + 1) == test_count(toks, toks.len() as int) + (if tok_has_cmd(t) { 1int } else { 0int }),
{
    lemma_test_count_prefix(toks, t, toks.len() as int);
    assert(toks.push(t)[toks.len() as int] == t);
}
pub proof fn lemma_first_cmd_mono(code: Seq<(usize, String)>, k: int, n: int)
    requires 0 <= k <= n, first_cmd(code, k) is Some,
    ensures first_cmd(code, n) is Some,
    decreases n - k
{
    if k < n { lemma_first_cmd_mono(code, k, n - 1); }
}
// ------------------------------------------------------------------ what the statement of C10 says about upd_fold
pub open spec fn line_no_lf(l: Seq<char>) -> bool { forall|i: int| 0 <= i < l.len() ==> l[i] != '\n' }
pub open spec fn lines_no_lf(v: Seq<Seq<char>>) -> bool { forall|j: int| 0 <= j < v.len() ==> line_no_lf(#[trigger] v[j]) }
/// std::str::lines: no line contains a line feed (TRUSTED)
#[verifier::external_body]
pub proof fn axiom_lines_no_lf(text: Seq<char>) ensures lines_no_lf(str_lines_md(text)) {}
/// lines_text only looks at the first k lines, pointwise
pub proof fn lemma_lines_text_eq(a: Seq<Seq<char>>, b: Seq<Seq<char>>, k: int)
    requires 0 <= k <= a.len(), k <= b.len(), forall|j: int| 0 <= j < k ==> a[j] == b[j],
    ensures lines_text(a, k) == lines_text(b, k),
    decreases k
{
    if k > 0 { lemma_lines_text_eq(a, b, k - 1); }
}
/// lines_text of a concatenation
pub proof fn lemma_lines_text_cat(a: Seq<Seq<char>>, b: Seq<Seq<char>>, k: int)
    requires 0 <= k <= b.len(),
    ensures lines_text(a + b, a.len() + k) =~= lines_text(a, a.len() as int) + lines_text(b, k),
    decreases k
{
    if k == 0 { lemma_lines_text_eq(a + b, a, a.len() as int); }
    else { lemma_lines_text_cat(a, b, k - 1); assert((a + b)[a.len() + k - 1] == b[k - 1]); }
}
/// joining with line feeds and terminating with one is the same as terminating every line (for lines without line feed)
pub proof fn lemma_joined_is_lines_text(v: Seq<Seq<char>>, k: int)
    requires 0 < k <= v.len(), lines_no_lf(v),
    ensures join_nl(v.take(k)).push('\n') =~= lines_text(v, k),
    decreases k
{
    assert(line_no_lf(v[k - 1]));
    assert(assure_nl(v[k - 1]) =~= v[k - 1].push('\n')) by { if v[k - 1].len() > 0 { assert(v[k - 1].last() != '\n'); } }
    if k == 1 { assert(v.take(1).len() == 1 && v.take(1)[0] == v[0]); assert(lines_text(v, 0) =~= Seq::<char>::empty()); }
    else {
        lemma_joined_is_lines_text(v, k - 1);
        assert(v.take(k).drop_last() =~= v.take(k - 1));
        assert(v.take(k).last() == v[k - 1]);
    }
}
/// "preserves, in order, every line outside scrut blocks": a token that is not a scrut block is written back as exactly the lines
/// it stands for, each terminated by a line feed, and consumes no outcome
pub proof fn lemma_upd_nontest(s: UpS, t: MarkdownToken, seg: Seq<Seq<char>>, n: int, cs: bool, langs: Seq<Seq<char>>, outs: Seq<&OpaqueOutcome>)
    requires token_ok(t, seg, n, cs, langs), !(t is TestCodeBlock), lines_no_lf(seg),
    ensures upd_step(s, t, outs) == Some(UpS { text: s.text + lines_text(seg, seg.len() as int), idx: s.idx }),
{
    let k = seg.len() as int;
    match t {
        MarkdownToken::Line(_, line) => { assert(lines_text(seg, 0) =~= Seq::<char>::empty()); assert(lines_text(seg, 1) =~= lines_text(seg, 0) + assure_nl(seg[0])); assert(upd_step(s, t, outs)->0.text =~= s.text + lines_text(seg, k)); /*L*/ }
        MarkdownToken::DocumentConfig(v) => {
            let mid = numbered_texts(v@);
            assert(line_no_lf(seg[0]));
            assert(assure_nl(dashes()) =~= dashes_nl());
            let a = seq![seg[0]]; let z = seq![seg[k - 1]];
            assert(seg =~= a + mid + z) by { assert forall|j: int| 0 <= j < k implies seg[j] == (a + mid + z)[j] by { if 1 <= j < k - 1 { assert(v@[j - 1].1@ == seg[j]); } } }
            assert forall|j: int| 0 <= j < mid.len() implies line_no_lf(#[trigger] mid[j]) by { assert(mid[j] == seg[j + 1]); }
            lemma_lines_text_cat(a + mid, z, 1);
            lemma_lines_text_cat(a, mid, mid.len() as int);
            assert(lines_text(a, 0) =~= Seq::<char>::empty()); assert(lines_text(a, 1) =~= lines_text(a, 0) + assure_nl(a[0]));
            assert(lines_text(z, 0) =~= Seq::<char>::empty()); assert(lines_text(z, 1) =~= lines_text(z, 0) + assure_nl(z[0]));
            if mid.len() > 0 { lemma_joined_is_lines_text(mid, mid.len() as int); assert(mid.take(mid.len() as int) =~= mid); }
            assert(joined_nl(v@) =~= lines_text(mid, mid.len() as int));
            assert(lines_text(seg, k) =~= dashes_nl() + joined_nl(v@) + dashes_nl());
            assert(upd_step(s, t, outs)->0.text =~= s.text + lines_text(seg, k)); /*D*/
        }
        MarkdownToken::VerbatimCodeBlock { starting_line_number, language, lines } => {
            lemma_lines_text_eq(strings_view(lines@), seg, k);
            assert(upd_step(s, t, outs)->0.text =~= s.text + lines_text(seg, k)); /*V*/
        }
        _ => {}
    }
}
/// the inline configuration as it is written back, from the opening line: nothing, or ` {` + the text between the braces (leading
/// whitespace dropped) + `}`
pub open spec fn cfg_written(open_line: Seq<char>) -> Seq<char> {
    let cfg = cbs_cfg(open_line);
    if cfg.len() >= 3 && cfg[0] == '{' && cfg.last() == '}' { seq![' ', '{'] + str_trim_start(cfg.subrange(1, cfg.len() - 1)) + seq!['}'] } else { Seq::empty() }
}
/// a scrut block as it is written back, from the lines it stands for: fence + the language as written + the inline configuration,
/// the comment lines as they are, the body, the closing fence
pub open spec fn block_written(seg: Seq<Seq<char>>, c: int, body: Seq<char>) -> Seq<char> {
    let b = ticks(max_ticks(body) + 1);
    b + cbs_lang(seg[0]) + cfg_written(seg[0]) + seq!['\n'] + lines_text(seg.subrange(1, 1 + c), c) + body + assure_nl(b)
}
/// "keeps each block's language, inline configuration and comment lines ... keeps the number and order of test blocks": a scrut block
/// with a command takes the next outcome, in order, and only its body is replaced; a scrut block without a command takes none and
/// keeps its own lines
pub proof fn lemma_upd_test(s: UpS, t: MarkdownToken, seg: Seq<Seq<char>>, n: int, cs: bool, langs: Seq<Seq<char>>, outs: Seq<&OpaqueOutcome>)
    requires token_ok(t, seg, n, cs, langs), t is TestCodeBlock, lines_no_lf(seg),
    ensures ({ let c = t->comment_lines@.len() as int; let k = seg.len() as int;
        if tok_has_cmd(t) {
            if 0 <= s.idx < outs.len() && gen_ok(*outs[s.idx]) {
                upd_step(s, t, outs) == Some(UpS { text: s.text + block_written(seg, c, gen_text(*outs[s.idx])), idx: s.idx + 1 })
            } else { upd_step(s, t, outs) is None }
        } else { upd_step(s, t, outs) == Some(UpS { text: s.text + block_written(seg, c, lines_text(seg.subrange(1 + c, k - 1), k - 2 - c)), idx: s.idx }) } }),
{
    match t {
        MarkdownToken::TestCodeBlock { language, config_lines, comment_lines, code_lines } => {
            let c = comment_lines@.len() as int; let k = seg.len() as int; let d = code_lines@.len() as int;
            let cm = numbered_texts(comment_lines@); let cd = numbered_texts(code_lines@);
            lemma_lines_text_eq(cm, seg.subrange(1, 1 + c), c);
            assert(cfg_text(config_lines@) =~= cfg_written(seg[0])) by {
                let cfg = cbs_cfg(seg[0]);
                if cfg.len() >= 3 && cfg[0] == '{' && cfg.last() == '}' {
                    assert(numbered_texts(config_lines@).len() == 1);
                    assert(join_nl(numbered_texts(config_lines@)) == config_lines@[0].1@);
                }
            }
            if !tok_has_cmd(t) {
                let own = seg.subrange(1 + c, k - 1);
                lemma_lines_text_eq(cd, own, d);
                if d > 0 {
                    assert forall|j: int| 0 <= j < cd.len() implies line_no_lf(#[trigger] cd[j]) by { assert(cd[j] == seg[1 + c + j]); }
                    lemma_joined_is_lines_text(cd, d); assert(cd.take(d) =~= cd);
                }
                assert(joined_nl(code_lines@) =~= lines_text(own, d));
            }
        }
        _ => {}
    }
}
/// the fence of a written block is not the start of any line of its body: the block is not closed early by its own content
pub proof fn lemma_block_fence_safe(body: Seq<char>, j: int)
    requires 0 <= j < str_lines_md(body).len(),
    ensures !is_prefix_of(ticks(max_ticks(body) + 1), str_lines_md(body)[j]),
{
    let ls = str_lines_md(body);
    lemma_mt_bound(ls, ls.len() as int, j);
    lemma_fence_safe(ls, j);
    assert(ticks(max_ticks(body) + 1) =~= Seq::new((mt(ls, ls.len() as int) + 1) as nat, |i: int| '`'));
}
