// ---- crlf_lang.rs: C13, "every CR LF pair becomes LF"
/// left to right: a CR directly followed by LF is dropped, every other byte is kept
pub open spec fn drop_cr(b: Seq<u8>) -> Seq<u8> decreases b.len() {
    if b.len() == 0 { Seq::empty() }
    else if b.len() >= 2 && b[0] == 13u8 && b[1] == 10u8 { drop_cr(b.skip(1)) }
    else { seq![b[0]] + drop_cr(b.skip(1)) }
}
pub open spec fn crlf_at(b: Seq<u8>, i: int) -> bool { 0 <= i && i + 1 < b.len() && b[i] == 13u8 && b[i + 1] == 10u8 }
/// up to the first CR LF pair nothing changes
pub proof fn lemma_drop_cr_first(b: Seq<u8>, i: int)
    requires 0 <= i <= b.len(), forall|j: int| 0 <= j < i ==> !crlf_at(b, j), i == b.len() || i + 1 == b.len() || crlf_at(b, i),
    ensures
        crlf_at(b, i) ==> drop_cr(b) == b.take(i) + drop_cr(b.skip(i + 1)),
        !crlf_at(b, i) ==> drop_cr(b) == b,
    decreases i
{
    if i == 0 {
        assert(b.take(0) + drop_cr(b.skip(1)) =~= drop_cr(b.skip(1)));
        if !crlf_at(b, 0) {
            if b.len() == 1 { assert(b.skip(1) =~= Seq::<u8>::empty()); assert(seq![b[0]] + Seq::<u8>::empty() =~= b); }
            else if b.len() == 0 { assert(b =~= Seq::<u8>::empty()); }
        }
    } else {
        let t = b.skip(1);
        assert forall|j: int| 0 <= j < i - 1 implies !crlf_at(t, j) by { assert(!crlf_at(b, j + 1)); }
        assert(crlf_at(t, i - 1) == crlf_at(b, i));
        lemma_drop_cr_first(t, i - 1);
        assert(!crlf_at(b, 0));
        assert(drop_cr(b) == seq![b[0]] + drop_cr(t));
        if crlf_at(b, i) {
            assert(t.skip(i) =~= b.skip(i + 1));
            assert(seq![b[0]] + (t.take(i - 1) + drop_cr(t.skip(i))) =~= b.take(i) + drop_cr(b.skip(i + 1)));
        } else {
            assert(seq![b[0]] + t =~= b);
        }
    }
}
/// one step of the left-to-right pass at position i
pub proof fn lemma_drop_cr_step(b: Seq<u8>, i: int)
    requires 0 <= i < b.len(),
    ensures
        crlf_at(b, i) ==> drop_cr(b.skip(i)) == drop_cr(b.skip(i + 1)),
        !crlf_at(b, i) ==> drop_cr(b.skip(i)) == seq![b[i]] + drop_cr(b.skip(i + 1)),
{
    let t = b.skip(i);
    assert(t[0] == b[i]);
    if i + 1 < b.len() { assert(t[1] == b[i + 1]); }
    assert(t.skip(1) =~= b.skip(i + 1));
}
pub uninterp spec fn strip_ansi(b: Seq<u8>) -> Option<Seq<u8>>;
/// what TestCase::render_output must return: CR LF -> LF unless keep_crlf is set; ANSI stripped only when asked
pub open spec fn rendered(t: TestCase, output: Seq<u8>) -> Option<Seq<u8>> {
    let p = if t.config.keep_crlf == Some(true) { output } else { drop_cr(output) };
    if t.config.strip_ansi_escaping == Some(true) { strip_ansi(p) } else { Some(p) }
}
