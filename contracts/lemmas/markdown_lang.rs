// ---- markdown_lang.rs: what one step of the Markdown tokenizer must return (C06)
// The document is the sequence of its lines (std::str::lines); a token must cover exactly the lines it consumed.

/// number of leading backticks
pub open spec fn tick_run(l: Seq<char>) -> int decreases l.len() {
    if l.len() > 0 && l[0] == '`' { 1 + tick_run(l.skip(1)) } else { 0 }
}
/// first index >= from holding `{`, or the length
pub open spec fn find_brace(l: Seq<char>, from: int) -> int decreases l.len() - from {
    if from < 0 || from >= l.len() { l.len() as int } else if l[from] == '{' { from } else { find_brace(l, from + 1) }
}
pub open spec fn backticks3() -> Seq<char> { seq!['`', '`', '`'] }
/// what counts as the opening line of a code block: exactly ``` , or a run of >= 3 backticks followed by an info string;
/// the info string is split at the first `{` after its first char into language and config, each with its trailing whitespace trimmed
/// (a fence line `` ```scrut `` + blank is a scrut fence; `{timeout: 3s}` + blank is that configuration).
/// Result: (backtick run, language, config text).
pub open spec fn cbs(l: Seq<char>) -> Option<(Seq<char>, Seq<char>, Seq<char>)> {
    if l == backticks3() { Some((l, Seq::empty(), Seq::empty())) }
    else {
        let k = tick_run(l);
        if k < 3 { None }
        // nothing but (more than three) backticks: a fence without info string
        else if k >= l.len() { Some((l, Seq::empty(), Seq::empty())) }
        else {
            let b = find_brace(l, k + 1);
            if b >= l.len() { Some((l.take(k), str_trim_end(l.skip(k)), Seq::empty())) }
            else { Some((l.take(k), str_trim_end(l.subrange(k, b)), str_trim_end(l.skip(b)))) }
        }
    }
}
pub proof fn lemma_tick_run(l: Seq<char>, k: int)
    requires 0 <= k <= l.len(), forall|j: int| 0 <= j < k ==> l[j] == '`', k == l.len() || l[k] != '`',
    ensures tick_run(l) == k,
    decreases k
{
    if k > 0 {
        let t = l.skip(1);
        assert forall|j: int| 0 <= j < k - 1 implies t[j] == '`' by { assert(t[j] == l[j + 1]); }
        lemma_tick_run(t, k - 1);
    }
}
pub proof fn lemma_find_brace(l: Seq<char>, from: int, b: int)
    requires 0 <= from <= b <= l.len(), forall|j: int| from <= j < b ==> l[j] != '{', b == l.len() || l[b] == '{',
    ensures find_brace(l, from) == b,
    decreases b - from
{
    if from < b { lemma_find_brace(l, from + 1, b); }
}
/// a run of backticks is as many bytes as chars
pub proof fn lemma_blen_ticks(l: Seq<char>, k: int)
    requires 0 <= k <= l.len(), forall|j: int| 0 <= j < k ==> l[j] == '`',
    ensures blen(l.take(k)) == k,
    decreases k
{
    if k == 0 {
        assert(l.take(0) =~= Seq::<char>::empty());
        encode_utf8_concat(Seq::<char>::empty(), Seq::<char>::empty());
        assert(Seq::<char>::empty() + Seq::<char>::empty() =~= Seq::<char>::empty());
    } else {
        lemma_blen_ticks(l, k - 1);
        assert(l.take(k) =~= l.take(k - 1).push(l[k - 1]));
        lemma_blen_push(l.take(k - 1), l[k - 1]);
        lemma_blen_ascii('`');
    }
}
pub open spec fn cbs_ticks(l: Seq<char>) -> Seq<char> { cbs(l).unwrap().0 }
pub open spec fn cbs_lang(l: Seq<char>) -> Seq<char> { cbs(l).unwrap().1 }
pub open spec fn cbs_cfg(l: Seq<char>) -> Seq<char> { cbs(l).unwrap().2 }
pub open spec fn dashes() -> Seq<char> { seq!['-', '-', '-'] }
pub open spec fn lang_in(langs: Seq<Seq<char>>, l: Seq<char>) -> bool { exists|k: int| 0 <= k < langs.len() && #[trigger] langs[k] == l }
pub open spec fn is_comment_line(l: Seq<char>) -> bool { l.len() > 0 && l[0] == '#' }
/// v lists lines[from .. from+|v|) with their 0-based document line numbers
pub open spec fn numbered(v: Seq<(usize, String)>, lines: Seq<Seq<char>>, from: int, first_number: int) -> bool {
    forall|j: int| 0 <= j < v.len() ==> (#[trigger] v[j]).0 == first_number + j && v[j].1@ == lines[from + j]
}
/// `{...}` after the language with a non-empty inside is the inline configuration, numbered with the fence line
pub open spec fn config_ok(v: Seq<(usize, String)>, cfg: Seq<char>, number: int) -> bool {
    if cfg.len() >= 3 && cfg[0] == '{' && cfg.last() == '}' {
        v.len() == 1 && v[0].0 == number && v[0].1@ =~= cfg.subrange(1, cfg.len() - 1)
    } else { v.len() == 0 }
}
/// the token `t` accounts for exactly the consumed lines `ls` (document lines number .. number+|ls|)
pub open spec fn token_ok(t: MarkdownToken, ls: Seq<Seq<char>>, number: int, content_started: bool, langs: Seq<Seq<char>>) -> bool {
    let k = ls.len();
    match t {
        MarkdownToken::Line(i, s) =>
            k == 1 && i == number && s@ == ls[0] && cbs(ls[0]) is None && !(!content_started && ls[0] == dashes()),
        MarkdownToken::DocumentConfig(v) =>
            !content_started && k >= 2 && ls[0] == dashes() && ls[k - 1] == dashes() && v@.len() == k - 2
            && numbered(v@, ls, 1, number + 1) && forall|j: int| 1 <= j < k - 1 ==> #[trigger] ls[j] != dashes(),
        MarkdownToken::VerbatimCodeBlock { starting_line_number, language, lines } =>
            k >= 2 && !(!content_started && ls[0] == dashes()) && cbs(ls[0]) is Some && !lang_in(langs, cbs_lang(ls[0]))
            && language@ == cbs_lang(ls[0]) && starting_line_number == number && lines@.len() == k
            && (forall|j: int| 0 <= j < k ==> (#[trigger] lines@[j])@ == ls[j])
            // the block ends at the FIRST later line that starts (at column 0) with the opening backtick run
            && is_prefix_of(cbs_ticks(ls[0]), ls[k - 1])
            && forall|j: int| 1 <= j < k - 1 ==> !is_prefix_of(cbs_ticks(ls[0]), #[trigger] ls[j]),
        MarkdownToken::TestCodeBlock { language, config_lines, comment_lines, code_lines } => {
            let c = comment_lines@.len() as int; let d = code_lines@.len() as int;
            k == 2 + c + d && !(!content_started && ls[0] == dashes()) && cbs(ls[0]) is Some && lang_in(langs, cbs_lang(ls[0]))
            && language@ == cbs_lang(ls[0]) && config_ok(config_lines@, cbs_cfg(ls[0]), number)
            && numbered(comment_lines@, ls, 1, number + 1) && (forall|j: int| 1 <= j < 1 + c ==> is_comment_line(#[trigger] ls[j]))
            && !is_comment_line(ls[1 + c])
            && numbered(code_lines@, ls, 1 + c, number + 1 + c)
            && is_prefix_of(cbs_ticks(ls[0]), ls[k - 1])
            && forall|j: int| 1 + c <= j < k - 1 ==> !is_prefix_of(cbs_ticks(ls[0]), #[trigger] ls[j])
        }
    }
}
/// the remaining lines start a front matter or a fence that is never closed
pub open spec fn unterminated(rem: Seq<Seq<char>>, cs: bool) -> bool {
    rem.len() > 0 && if !cs && rem[0] == dashes() { forall|j: int| 1 <= j < rem.len() ==> #[trigger] rem[j] != dashes() }
    else { cbs(rem[0]) is Some && forall|j: int| 1 <= j < rem.len() ==> !is_prefix_of(cbs_ticks(rem[0]), #[trigger] rem[j]) }
}
/// a comment line (`#…`) never closes a fence
pub proof fn lemma_comment_not_fence(l: Seq<char>, c: Seq<char>)
    requires cbs(l) is Some, is_comment_line(c),
    ensures !is_prefix_of(cbs_ticks(l), c),
{
    if l != backticks3() {
        assert(tick_run(l) >= 3); assert(l.len() > 0 && l[0] == '`');
        if tick_run(l) < l.len() { assert(l.take(tick_run(l))[0] == l[0]); }
    }
    assert(cbs_ticks(l).len() > 0 && cbs_ticks(l)[0] == '`');
}
/// the iterator has consumed the first (number - number0) lines of r0
pub open spec fn consumed_ok(rem: Seq<Seq<char>>, r0: Seq<Seq<char>>, number: int, number0: int) -> bool {
    0 <= number - number0 <= r0.len() && rem =~= r0.skip(number - number0)
}
/// loop knowledge once the info string has started at char/byte index k; chars [0, n) have been scanned
pub open spec fn fence_found(l: Seq<char>, k: int, n: int) -> bool {
    &&& 3 <= k < n <= l.len()
    &&& forall|j: int| 0 <= j < k ==> l[j] == '`'
    &&& l[k] != '`'
    &&& forall|j: int| k < j < n ==> l[j] != '{'
}
pub proof fn lemma_tick_run_prefix(l: Seq<char>, n: int)
    requires 0 <= n < l.len(), forall|j: int| 0 <= j < n ==> l[j] == '`',
    ensures l[n] != '`' ==> tick_run(l) == n,
{
    if l[n] != '`' { lemma_tick_run(l, n); }
}
/// everything the return sites need: the three slices are taken at char boundaries and are the parts `cbs` names
pub proof fn lemma_fence_parts(l: Seq<char>, k: int, n: int)
    requires fence_found(l, k, n),
    ensures
        tick_run(l) == k, blen(l.take(k)) == k, boundary(l, k), boundary(l, blen(l.take(n))), boundary(l, 0), blen(l.take(0)) == 0,
        k <= blen(l.take(n)), is_prefix_of(backticks3(), l),
        n < l.len() && l[n] == '{' ==> find_brace(l, k + 1) == n,
        n == l.len() ==> find_brace(l, k + 1) == l.len(),
{
    lemma_tick_run(l, k);
    lemma_blen_ticks(l, k);
    lemma_blen_ticks(l, 0);
    assert(boundary(l, k)) by { assert(blen(l.take(k)) == k); }
    assert(boundary(l, 0)) by { assert(blen(l.take(0)) == 0); }
    assert(boundary(l, blen(l.take(n)))) by { assert(blen(l.take(n)) == blen(l.take(n))); }
    if n == l.len() || l[n] == '{' { lemma_find_brace(l, k + 1, n); }
    lemma_blen_mono(l, k, n);
    assert(l.subrange(0, 3) =~= backticks3());
}
/// byte length of prefixes is monotone
pub proof fn lemma_blen_mono(l: Seq<char>, a: int, b: int)
    requires 0 <= a <= b <= l.len(),
    ensures blen(l.take(a)) <= blen(l.take(b)),
    decreases b - a
{
    if a < b {
        lemma_blen_mono(l, a, b - 1);
        assert(l.take(b) =~= l.take(b - 1).push(l[b - 1]));
        lemma_blen_push(l.take(b - 1), l[b - 1]);
    }
}
