// ---- escape_roundtrip.rs: C11 — the escaped rendering decodes back to the original bytes, and is printable.
// Pure lemmas over the specs of escape_lang.rs (encoder table enc_a / enc_ascii, decoders unesc / resolve).

// ------------------------------------------------------------------ assumed facts about dependencies (TRUSTED; each is
// validated against the real function by the thorough tier: exhaustively over 256 bytes / boundedly over byte strings)
/// u8::from_str_radix(<two lower-case hex digits of b>, 16) == Ok(b)
#[verifier::external_body]
pub proof fn axiom_radix_hex2(b: u8) ensures radix_u8(hex2(b), 16u32) == Some(b) {}
/// String::from_utf8_lossy on ASCII bytes is the identity
#[verifier::external_body]
pub proof fn axiom_lossy_ascii(bs: Seq<u8>)
    requires forall|k: int| 0 <= k < bs.len() ==> bs[k] < 0x80,
    ensures lossy(bs) == ascii_chars(bs) {}
/// ... and a control byte, DEL or a byte >= 0x80 never decodes to printable ASCII only
#[verifier::external_body]
pub proof fn axiom_lossy_unprintable(bs: Seq<u8>)
    requires exists_unprintable(bs),
    ensures exists|k: int| 0 <= k < lossy(bs).len() && !printable_char(#[trigger] lossy(bs)[k]) {}

pub open spec fn ascii_chars(bs: Seq<u8>) -> Seq<char> { Seq::new(bs.len(), |i: int| bs[i] as char) }
pub open spec fn printable_char(c: char) -> bool { 0x20 <= c as u32 <= 0x7e }
pub open spec fn all_printable(s: Seq<char>) -> bool { forall|k: int| 0 <= k < s.len() ==> printable_char(#[trigger] s[k]) }
pub open spec fn no_lf(bs: Seq<u8>) -> bool { forall|k: int| 0 <= k < bs.len() ==> bs[k] != 10u8 }

// ------------------------------------------------------------------ per token
/// what the token of byte b looks like after stage 1
pub open spec fn u_tok(b: u8) -> Seq<char> {
    if b == 13 { seq!['\r'] } else if b == 9 { seq!['\t'] } else if b == 7 { seq!['\x07'] } else if b == 8 { seq!['\x08'] }
    else if b == 12 { seq!['\x0c'] } else if b == 11 { seq!['\x0b'] } else if b == 92 { seq!['\\', '\\'] }
    else if 0x20 <= b <= 0x7e { seq![b as char] } else { seq!['\\', 'x'] + hex2(b) }
}
pub proof fn lemma_hexdigit_plain(d: int) requires 0 <= d < 16 ensures hexdigit(d) != '\\', printable_char(hexdigit(d)) {}

/// stage 1 consumes exactly one token
pub proof fn lemma_tok_unesc(b: u8, s: Seq<char>)
    requires b != 10,
    ensures unesc(enc_a(b) + s) == u_tok(b) + unesc(s),
{
    let t = enc_a(b) + s;
    if b == 13 || b == 9 || b == 7 || b == 8 || b == 12 || b == 11 || b == 92 {
        assert(t[0] == '\\'); assert(t.len() >= 2); assert(t.skip(2) =~= s);
        assert(unesc(t) == unesc_pair(t[1]) + unesc(t.skip(2)));
        assert(unesc_pair(t[1]) =~= u_tok(b));
    } else if 0x20 <= b <= 0x7e {
        assert(t[0] == b as char); assert(t[0] != '\\'); assert(t.skip(1) =~= s);
        assert(seq![t[0]] =~= u_tok(b));
    } else {
        let h1 = hexdigit(b as int / 16); let h2 = hexdigit(b as int % 16);
        lemma_hexdigit_plain(b as int / 16); lemma_hexdigit_plain(b as int % 16);
        assert(t =~= seq!['\\', 'x', h1, h2] + s);
        assert(t[0] == '\\' && t[1] == 'x');
        let t2 = t.skip(2); assert(t2 =~= seq![h1, h2] + s);
        assert(unesc(t) == unesc_pair('x') + unesc(t2));
        assert(t2[0] == h1); let t3 = t2.skip(1); assert(t3 =~= seq![h2] + s);
        assert(unesc(t2) == seq![h1] + unesc(t3));
        assert(t3[0] == h2); assert(t3.skip(1) =~= s);
        assert(unesc(t3) == seq![h2] + unesc(s));
        assert(unesc(t) =~= seq!['\\', 'x', h1, h2] + unesc(s));
        assert(u_tok(b) =~= seq!['\\', 'x', h1, h2]);
    }
}
proof fn lemma_ascii_utf8(c: char) requires (c as u32) < 128 ensures encode_utf8(seq![c]) =~= seq![c as u8] {
    assert(is_ascii_chars(seq![c]));
    is_ascii_chars_encode_utf8(seq![c]);
}
/// stage 2 turns the token back into the byte
pub proof fn lemma_tok_resolve(b: u8, r: Seq<char>)
    requires b != 10,
    ensures opt_eq(resolve(u_tok(b) + r), prepend(seq![b], resolve(r))),
{
    let t = u_tok(b) + r;
    if b == 13 || b == 9 || b == 7 || b == 8 || b == 12 || b == 11 || (0x20 <= b <= 0x7e && b != 92) {
        let c = t[0];
        assert(c != '\\'); assert(t.skip(1) =~= r);
        lemma_ascii_utf8(c);
        assert(c as u8 == b);
        assert(resolve(t) == prepend(encode_utf8(seq![c]), resolve(r)));
    } else if b == 92 {
        assert(t[0] == '\\' && t[1] == '\\'); assert(t.skip(2) =~= r);
        assert(resolve(t) == prepend(seq![92u8], resolve(r)));
    } else {
        let h1 = hexdigit(b as int / 16); let h2 = hexdigit(b as int % 16);
        assert(t =~= seq!['\\', 'x', h1, h2] + r);
        assert(t[0] == '\\' && t[1] == 'x' && t.len() >= 4); assert(t.skip(4) =~= r);
        assert(seq![t[2], t[3]] =~= hex2(b));
        axiom_radix_hex2(b);
        assert(resolve(t) == prepend(seq![b], resolve(r)));
    }
}
/// every token is printable ASCII
pub proof fn lemma_tok_printable(b: u8) ensures all_printable(enc_a(b)) {
    lemma_hexdigit_plain(b as int / 16); lemma_hexdigit_plain(b as int % 16);
    assert forall|k: int| 0 <= k < enc_a(b).len() implies printable_char(#[trigger] enc_a(b)[k]) by {}
}

// ------------------------------------------------------------------ whole strings
pub open spec fn u_all(bs: Seq<u8>) -> Seq<char> decreases bs.len() {
    if bs.len() == 0 { Seq::empty() } else { u_all(bs.drop_last()) + u_tok(bs.last()) }
}
pub proof fn lemma_all_unesc(bs: Seq<u8>, s: Seq<char>)
    requires no_lf(bs),
    ensures unesc(enc_ascii(bs) + s) == u_all(bs) + unesc(s),
    decreases bs.len()
{
    if bs.len() == 0 {
        assert(enc_ascii(bs) + s =~= s); assert(u_all(bs) + unesc(s) =~= unesc(s));
    } else {
        let init = bs.drop_last(); let b = bs.last();
        assert(no_lf(init)) by { assert forall|k: int| 0 <= k < init.len() implies init[k] != 10u8 by { assert(init[k] == bs[k]); } }
        lemma_all_unesc(init, enc_a(b) + s);
        lemma_tok_unesc(b, s);
        assert(enc_ascii(bs) + s =~= enc_ascii(init) + (enc_a(b) + s));
        assert(u_all(init) + (u_tok(b) + unesc(s)) =~= u_all(bs) + unesc(s));
    }
}
pub proof fn lemma_all_resolve(bs: Seq<u8>, r: Seq<char>)
    requires no_lf(bs),
    ensures opt_eq(resolve(u_all(bs) + r), prepend(bs, resolve(r))),
    decreases bs.len()
{
    if bs.len() == 0 {
        assert(u_all(bs) + r =~= r);
        match resolve(r) { Some(t) => { assert(bs + t =~= t); } None => {} }
    } else {
        let init = bs.drop_last(); let b = bs.last();
        assert(no_lf(init)) by { assert forall|k: int| 0 <= k < init.len() implies init[k] != 10u8 by { assert(init[k] == bs[k]); } }
        lemma_all_resolve(init, u_tok(b) + r);
        lemma_tok_resolve(b, r);
        assert(u_all(bs) + r =~= u_all(init) + (u_tok(b) + r));
        match resolve(r) {
            Some(t) => { assert(init + (seq![b] + t) =~= bs + t); }
            None => {}
        }
    }
}
/// C11 (lossless, ascii mode): the escaped rendering of a line without inner LF decodes to exactly that line
pub proof fn lemma_roundtrip_ascii(bs: Seq<u8>)
    requires no_lf(bs),
    ensures opt_eq(decode(enc_ascii(bs)), Some(bs)),
{
    lemma_all_unesc(bs, Seq::empty());
    assert(enc_ascii(bs) + Seq::<char>::empty() =~= enc_ascii(bs));
    assert(unesc(Seq::<char>::empty()) =~= Seq::<char>::empty());
    assert(u_all(bs) + Seq::<char>::empty() =~= u_all(bs));
    lemma_all_resolve(bs, Seq::empty());
    assert(bs + Seq::<u8>::empty() =~= bs);
}
/// C11 (printable, ascii mode)
pub proof fn lemma_enc_ascii_printable(bs: Seq<u8>) ensures all_printable(enc_ascii(bs)) decreases bs.len() {
    if bs.len() > 0 {
        lemma_enc_ascii_printable(bs.drop_last());
        lemma_tok_printable(bs.last());
        assert forall|k: int| 0 <= k < enc_ascii(bs).len() implies printable_char(#[trigger] enc_ascii(bs)[k]) by {
            let a = enc_ascii(bs.drop_last());
            if k < a.len() { assert(enc_ascii(bs)[k] == a[k]); } else { assert(enc_ascii(bs)[k] == enc_a(bs.last())[k - a.len()]); }
        }
    }
}

/// what EscapedRule::make stores for the expression t (contract [C04.escaped.make.ok]): a trailing ` (no-eol)` of the expression is
/// ignored (Cram compatibility), the rest is decoded
pub open spec fn read_back(t: Seq<char>) -> Option<Seq<u8>> { decode(without_noeol(t)) }

// ------------------------------------------------------------------ the ` (no-eol)` ending (keep_trailing_no_eol / protect)
/// a protected text does not end in ` (no-eol)`: the reader takes it whole
pub proof fn lemma_protect_read_back(t: Seq<char>) ensures without_noeol(protect(t)) == protect(t), read_back(protect(t)) == decode(protect(t)) {
    let p = protect(t);
    if is_suffix_of(m_noeol(), t) {
        assert(p.last() == '9');
        if is_suffix_of(m_noeol(), p) { assert(p.subrange(p.len() - 9, p.len() as int)[8] == p[p.len() - 1]); assert(m_noeol()[8] == ')'); assert(false); }
    }
}
pub proof fn lemma_x29_unesc(s: Seq<char>) ensures unesc(x29() + s) == x29() + unesc(s) {
    let t = x29() + s;
    assert(t[0] == '\\' && t[1] == 'x' && t.len() >= 2);
    let t2 = t.skip(2); assert(t2 =~= seq!['2', '9'] + s);
    assert(unesc(t) == unesc_pair('x') + unesc(t2));
    assert(t2[0] == '2'); let t3 = t2.skip(1); assert(t3 =~= seq!['9'] + s);
    assert(unesc(t2) == seq!['2'] + unesc(t3));
    assert(t3[0] == '9'); assert(t3.skip(1) =~= s);
    assert(unesc(t3) == seq!['9'] + unesc(s));
    assert(unesc(t) =~= x29() + unesc(s));
}
pub proof fn lemma_x29_resolve(r: Seq<char>) ensures opt_eq(resolve(x29() + r), prepend(seq![41u8], resolve(r))) {
    let t = x29() + r;
    assert(t[0] == '\\' && t[1] == 'x' && t.len() >= 4); assert(t.skip(4) =~= r);
    assert(seq![t[2], t[3]] =~= hex2(41u8));
    axiom_radix_hex2(41u8);
    assert(resolve(t) == prepend(seq![41u8], resolve(r)));
}
/// only the token of `)` ends in `)`
pub proof fn lemma_enc_a_last(b: u8) ensures enc_a(b).len() >= 1, enc_a(b).last() == ')' ==> b == 41u8 && enc_a(b) =~= seq![')'] {
    lemma_hexdigit_plain(b as int / 16); lemma_hexdigit_plain(b as int % 16);
    if !(b == 10 || b == 13 || b == 9 || b == 7 || b == 8 || b == 12 || b == 11 || b == 92) && !(0x20 <= b <= 0x7e) {
        assert(enc_a(b).last() == hexdigit(b as int % 16));
        assert(hexdigit(b as int % 16) != ')');
    }
}
/// C11 (lossless, ascii mode) for the text as it is WRITTEN and READ BACK: EscapedRule::make recovers exactly the line
pub proof fn lemma_roundtrip_ascii_protected(bs: Seq<u8>)
    requires no_lf(bs),
    ensures opt_eq(read_back(protect(enc_ascii(bs))), Some(bs)),
{
    let t = enc_ascii(bs);
    lemma_protect_read_back(t);
    if is_suffix_of(m_noeol(), t) {
        assert(t.len() >= 9);
        assert(t.subrange(t.len() - 9, t.len() as int)[8] == t[t.len() - 1]);
        assert(t.last() == ')');
        assert(bs.len() > 0);
        let init = bs.drop_last(); let b = bs.last();
        lemma_enc_a_last(b);
        assert(t == enc_ascii(init) + enc_a(b));
        assert(t.last() == enc_a(b).last());
        assert(t.drop_last() =~= enc_ascii(init));
        assert(no_lf(init)) by { assert forall|k: int| 0 <= k < init.len() implies init[k] != 10u8 by { assert(init[k] == bs[k]); } }
        let e = Seq::<char>::empty();
        lemma_all_unesc(init, x29());
        lemma_x29_unesc(e);
        assert(x29() + e =~= x29()); assert(unesc(e) =~= e);
        assert(unesc(enc_ascii(init) + x29()) == u_all(init) + x29());
        lemma_all_resolve(init, x29());
        lemma_x29_resolve(e);
        assert(init + seq![41u8] =~= bs);
        assert(seq![41u8] + Seq::<u8>::empty() =~= seq![41u8]);
    } else {
        lemma_roundtrip_ascii(bs);
    }
}
pub proof fn lemma_protect_printable(t: Seq<char>) requires all_printable(t) ensures all_printable(protect(t)) {
    let p = protect(t);
    assert forall|k: int| 0 <= k < p.len() implies printable_char(#[trigger] p[k]) by {
        if is_suffix_of(m_noeol(), t) { if k < t.len() - 1 { assert(p[k] == t[k]); } else { assert(p[k] == x29()[k - (t.len() - 1)]); } }
    }
}

// ------------------------------------------------------------------ what "the text scrut writes for a line" must satisfy
pub open spec fn escaped_marker() -> Seq<char> { seq![' ', '(', 'e', 's', 'c', 'a', 'p', 'e', 'd', ')'] }
/// either the text IS the line (an `equal` expectation: its UTF-8 bytes are the line's content), or it is `t (escaped)`
/// where the escaped expression t is READ BACK (by EscapedRule::make) as exactly the line's content (so, by the EscapedRule
/// contract, it matches the original line and no line with different content)
pub open spec fn written_for(text: Seq<char>, content: Seq<u8>) -> bool {
    encode_utf8(text) == content
    || exists|t: Seq<char>| #[trigger] (t + escaped_marker()) == text && opt_eq(read_back(t), Some(content))
}
/// the same, with the case named: printable content is written as itself (its lossy text, whose UTF-8 bytes are the content);
/// anything else as an escaped expression that decodes to the content, followed by the marker
pub open spec fn exp_form(text: Seq<char>, content: Seq<u8>, unprintable: bool) -> bool {
    (!unprintable ==> text == lossy(content) && encode_utf8(text) == content)
    && (unprintable ==> exists|t: Seq<char>| #[trigger] (t + escaped_marker()) == text && (no_lf(content) ==> opt_eq(read_back(t), Some(content))))
}
pub proof fn lemma_plain_is_line(bs: Seq<u8>)
    requires forall|k: int| 0 <= k < bs.len() ==> bs[k] < 0x80,
    ensures encode_utf8(ascii_chars(bs)) == bs,
{
    let s = ascii_chars(bs);
    assert(is_ascii_chars(s));
    is_ascii_chars_encode_utf8(s);
    assert(encode_utf8(s) =~= bs);
}
pub proof fn lemma_suffix_printable(t: Seq<char>)
    requires all_printable(t),
    ensures all_printable(t + escaped_marker()),
{
    assert forall|k: int| 0 <= k < (t + escaped_marker()).len() implies printable_char(#[trigger] (t + escaped_marker())[k]) by {
        if k < t.len() { assert((t + escaped_marker())[k] == t[k]); }
    }
}

// ------------------------------------------------------------------ unicode mode
pub open spec fn any_other(cs: Seq<char>) -> bool { exists|k: int| 0 <= k < cs.len() && is_other(#[trigger] cs[k]) }
/// what escaped_printable_ascii returns (both branches)
pub open spec fn printable_ascii_of(bs: Seq<u8>) -> Seq<char> { if exists_unprintable(bs) { enc_ascii(bs) } else { lossy(bs) } }
/// one char, unicode mode: "other" chars (control, format, unassigned, private use, surrogate) are written as the escaped
/// bytes of their UTF-8 encoding; a backslash is doubled iff anything in the string is escaped (dbl); all else is kept
pub open spec fn enc_u_char(c: char, dbl: bool) -> Seq<char> {
    if is_other(c) { printable_ascii_of(encode_utf8(seq![c])) }
    else if dbl && c == '\\' { seq!['\\', '\\'] }
    else { seq![c] }
}
pub open spec fn enc_u(cs: Seq<char>, dbl: bool) -> Seq<char> decreases cs.len() {
    if cs.len() == 0 { Seq::empty() } else { enc_u(cs.drop_last(), dbl) + enc_u_char(cs.last(), dbl) }
}

// assumed facts about unicode_categories / UTF-8 (TRUSTED; validated exhaustively over all 1 112 064 scalar values in the thorough tier)
/// printable ASCII (incl. the backslash) is never in a C* category
#[verifier::external_body]
pub proof fn axiom_printable_not_other(c: char) requires printable_char(c) ensures !is_other(c) {}
/// the UTF-8 bytes of a C* char contain a byte outside 0x20..0x7e (it is an ASCII control/DEL or has bytes >= 0x80)
#[verifier::external_body]
pub proof fn axiom_other_bytes_unprintable(c: char) requires is_other(c) ensures exists_unprintable(encode_utf8(seq![c])) {}
/// byte 0x0a occurs in UTF-8 only as the encoding of U+000A
#[verifier::external_body]
pub proof fn axiom_utf8_lf(c: char) requires c != '\n' ensures no_lf(encode_utf8(seq![c])) {}
/// String::from_utf8_lossy on valid UTF-8 is the decoding
#[verifier::external_body]
pub proof fn axiom_lossy_valid(cs: Seq<char>) ensures lossy(encode_utf8(cs)) == cs {}

pub open spec fn none_other(s: Seq<char>) -> bool { forall|k: int| 0 <= k < s.len() ==> !is_other(#[trigger] s[k]) }
pub open spec fn no_lf_char(cs: Seq<char>) -> bool { forall|k: int| 0 <= k < cs.len() ==> cs[k] != '\n' }

/// the token of char c after stage 1 (doubling on)
pub open spec fn v_tok(c: char) -> Seq<char> {
    if is_other(c) { u_all(encode_utf8(seq![c])) } else if c == '\\' { seq!['\\', '\\'] } else { seq![c] }
}
pub proof fn lemma_uchar_unesc(c: char, s: Seq<char>)
    requires c != '\n',
    ensures unesc(enc_u_char(c, true) + s) == v_tok(c) + unesc(s),
{
    if is_other(c) {
        axiom_other_bytes_unprintable(c); axiom_utf8_lf(c);
        lemma_all_unesc(encode_utf8(seq![c]), s);
    } else if c == '\\' {
        let t = seq!['\\', '\\'] + s;
        assert(t[0] == '\\' && t[1] == '\\'); assert(t.skip(2) =~= s);
        assert(unesc(t) == unesc_pair('\\') + unesc(s));
        assert(unesc_pair('\\') =~= seq!['\\', '\\']);
    } else {
        let t = seq![c] + s;
        assert(t[0] == c); assert(t.skip(1) =~= s);
    }
}
pub proof fn lemma_uchar_resolve(c: char, r: Seq<char>)
    requires c != '\n',
    ensures opt_eq(resolve(v_tok(c) + r), prepend(encode_utf8(seq![c]), resolve(r))),
{
    if is_other(c) {
        axiom_utf8_lf(c);
        lemma_all_resolve(encode_utf8(seq![c]), r);
    } else if c == '\\' {
        let t = seq!['\\', '\\'] + r;
        assert(t[0] == '\\' && t[1] == '\\'); assert(t.skip(2) =~= r);
        lemma_ascii_utf8('\\');
        assert(resolve(t) == prepend(seq![92u8], resolve(r)));
    } else {
        let t = seq![c] + r;
        assert(t[0] == c); assert(t.skip(1) =~= r);
        assert(resolve(t) == prepend(encode_utf8(seq![c]), resolve(r)));
    }
}
pub open spec fn v_all(cs: Seq<char>) -> Seq<char> decreases cs.len() {
    if cs.len() == 0 { Seq::empty() } else { v_all(cs.drop_last()) + v_tok(cs.last()) }
}
proof fn lemma_no_lf_char_init(cs: Seq<char>) requires no_lf_char(cs), cs.len() > 0 ensures no_lf_char(cs.drop_last()), cs.last() != '\n' {
    assert forall|k: int| 0 <= k < cs.drop_last().len() implies cs.drop_last()[k] != '\n' by { assert(cs.drop_last()[k] == cs[k]); }
}
pub proof fn lemma_uall_unesc(cs: Seq<char>, s: Seq<char>)
    requires no_lf_char(cs),
    ensures unesc(enc_u(cs, true) + s) == v_all(cs) + unesc(s),
    decreases cs.len()
{
    if cs.len() == 0 {
        assert(enc_u(cs, true) + s =~= s); assert(v_all(cs) + unesc(s) =~= unesc(s));
    } else {
        let init = cs.drop_last(); let c = cs.last();
        lemma_no_lf_char_init(cs);
        lemma_uall_unesc(init, enc_u_char(c, true) + s);
        lemma_uchar_unesc(c, s);
        assert(enc_u(cs, true) + s =~= enc_u(init, true) + (enc_u_char(c, true) + s));
        assert(v_all(init) + (v_tok(c) + unesc(s)) =~= v_all(cs) + unesc(s));
    }
}
pub proof fn lemma_uall_resolve(cs: Seq<char>, r: Seq<char>)
    requires no_lf_char(cs),
    ensures opt_eq(resolve(v_all(cs) + r), prepend(encode_utf8(cs), resolve(r))),
    decreases cs.len()
{
    if cs.len() == 0 {
        assert(v_all(cs) + r =~= r);
        assert(cs =~= Seq::<char>::empty());
        assert(encode_utf8(Seq::<char>::empty()) =~= Seq::<u8>::empty()) by { encode_utf8_concat(Seq::<char>::empty(), Seq::<char>::empty()); assert(Seq::<char>::empty() + Seq::<char>::empty() =~= Seq::<char>::empty()); }
        match resolve(r) { Some(t) => { assert(encode_utf8(cs) + t =~= t); } None => {} }
    } else {
        let init = cs.drop_last(); let c = cs.last();
        lemma_no_lf_char_init(cs);
        lemma_uall_resolve(init, v_tok(c) + r);
        lemma_uchar_resolve(c, r);
        assert(v_all(cs) + r =~= v_all(init) + (v_tok(c) + r));
        encode_utf8_concat(init, seq![c]);
        assert(init + seq![c] =~= cs);
        match resolve(r) {
            Some(t) => { assert(encode_utf8(init) + (encode_utf8(seq![c]) + t) =~= encode_utf8(cs) + t); }
            None => {}
        }
    }
}
/// C11 (lossless, unicode mode, something is escaped): decodes to exactly the UTF-8 bytes of the line
pub proof fn lemma_roundtrip_unicode(cs: Seq<char>)
    requires no_lf_char(cs),
    ensures opt_eq(decode(enc_u(cs, true)), Some(encode_utf8(cs))),
{
    lemma_uall_unesc(cs, Seq::empty());
    assert(enc_u(cs, true) + Seq::<char>::empty() =~= enc_u(cs, true));
    assert(unesc(Seq::<char>::empty()) =~= Seq::<char>::empty());
    assert(v_all(cs) + Seq::<char>::empty() =~= v_all(cs));
    lemma_uall_resolve(cs, Seq::empty());
    assert(encode_utf8(cs) + Seq::<u8>::empty() =~= encode_utf8(cs));
}

/// the UTF-8 encoding of a char ends in an ASCII byte only when the char is ASCII (continuation bytes are >= 0x80)
/// (TRUSTED; validated exhaustively over all scalar values by `verif-replay axioms`)
#[verifier::external_body]
pub proof fn axiom_utf8_last_ascii(c: char) requires encode_utf8(seq![c]).len() > 0, encode_utf8(seq![c]).last() < 0x80 ensures (c as u32) < 0x80 {}
/// only the token of `)` ends in `)` (unicode mode, doubling on)
pub proof fn lemma_enc_u_char_last(c: char)
    ensures enc_u_char(c, true).len() >= 1, enc_u_char(c, true).last() == ')' ==> c == ')' && enc_u_char(c, true) =~= seq![')'],
{
    if is_other(c) {
        let bytes = encode_utf8(seq![c]);
        axiom_other_bytes_unprintable(c);
        assert(bytes.len() > 0);
        assert(enc_u_char(c, true) == enc_ascii(bytes));
        let init = bytes.drop_last(); let b = bytes.last();
        lemma_enc_a_last(b);
        assert(enc_ascii(bytes) == enc_ascii(init) + enc_a(b));
        assert(enc_ascii(bytes).last() == enc_a(b).last());
        if enc_a(b).last() == ')' {
            axiom_utf8_last_ascii(c);
            lemma_ascii_utf8(c);
            assert(c as u8 == 41u8);
            assert(printable_char(c));
            axiom_printable_not_other(c);
            assert(false);
        }
    }
}
/// C11 (lossless, unicode mode) for the text as it is WRITTEN and READ BACK
pub proof fn lemma_roundtrip_unicode_protected(cs: Seq<char>)
    requires no_lf_char(cs),
    ensures opt_eq(read_back(protect(enc_u(cs, true))), Some(encode_utf8(cs))),
{
    let t = enc_u(cs, true);
    lemma_protect_read_back(t);
    if is_suffix_of(m_noeol(), t) {
        assert(t.len() >= 9);
        assert(t.subrange(t.len() - 9, t.len() as int)[8] == t[t.len() - 1]);
        assert(t.last() == ')');
        assert(cs.len() > 0);
        let init = cs.drop_last(); let c = cs.last();
        lemma_enc_u_char_last(c);
        assert(t == enc_u(init, true) + enc_u_char(c, true));
        assert(t.last() == enc_u_char(c, true).last());
        assert(t.drop_last() =~= enc_u(init, true));
        lemma_no_lf_char_init(cs);
        let e = Seq::<char>::empty();
        lemma_uall_unesc(init, x29());
        lemma_x29_unesc(e);
        assert(x29() + e =~= x29()); assert(unesc(e) =~= e);
        assert(unesc(enc_u(init, true) + x29()) == v_all(init) + x29());
        lemma_uall_resolve(init, x29());
        lemma_x29_resolve(e);
        encode_utf8_concat(init, seq![c]);
        assert(init + seq![c] =~= cs);
        lemma_ascii_utf8(c);
        assert(encode_utf8(init) + seq![41u8] =~= encode_utf8(cs));
        assert(seq![41u8] + Seq::<u8>::empty() =~= seq![41u8]);
    } else {
        lemma_roundtrip_unicode(cs);
    }
}
pub proof fn lemma_protect_none_other(t: Seq<char>) requires none_other(t) ensures none_other(protect(t)) {
    let p = protect(t);
    assert forall|k: int| 0 <= k < p.len() implies !is_other(#[trigger] p[k]) by {
        if is_suffix_of(m_noeol(), t) {
            if k < t.len() - 1 { assert(p[k] == t[k]); } else { let c = x29()[k - (t.len() - 1)]; assert(p[k] == c); assert(printable_char(c)); axiom_printable_not_other(c); }
        }
    }
}
/// nothing written in unicode mode is a control / format / unassigned code point
pub proof fn lemma_enc_u_none_other(cs: Seq<char>, dbl: bool) ensures none_other(enc_u(cs, dbl)) decreases cs.len() {
    if cs.len() > 0 {
        let c = cs.last();
        lemma_enc_u_none_other(cs.drop_last(), dbl);
        let tok = enc_u_char(c, dbl);
        assert(none_other(tok)) by {
            if is_other(c) {
                axiom_other_bytes_unprintable(c);
                lemma_enc_ascii_printable(encode_utf8(seq![c]));
                assert forall|k: int| 0 <= k < tok.len() implies !is_other(#[trigger] tok[k]) by { axiom_printable_not_other(tok[k]); }
            } else if dbl && c == '\\' {
                axiom_printable_not_other('\\');
            }
        }
        assert forall|k: int| 0 <= k < enc_u(cs, dbl).len() implies !is_other(#[trigger] enc_u(cs, dbl)[k]) by {
            let a = enc_u(cs.drop_last(), dbl);
            if k < a.len() { assert(enc_u(cs, dbl)[k] == a[k]); } else { assert(enc_u(cs, dbl)[k] == tok[k - a.len()]); }
        }
    }
}
/// without any "other" char nothing is rewritten (dbl is false then)
pub proof fn lemma_enc_u_identity(cs: Seq<char>) requires !any_other(cs) ensures enc_u(cs, false) =~= cs decreases cs.len() {
    if cs.len() > 0 {
        assert(!any_other(cs.drop_last())) by {
            if any_other(cs.drop_last()) { let k = choose|k: int| 0 <= k < cs.drop_last().len() && is_other(#[trigger] cs.drop_last()[k]); assert(cs[k] == cs.drop_last()[k]); }
        }
        lemma_enc_u_identity(cs.drop_last());
        assert(!is_other(cs.last())) by { if is_other(cs.last()) { assert(is_other(cs[cs.len() - 1])); } }
        assert(cs.drop_last() + seq![cs.last()] =~= cs);
    }
}

pub proof fn lemma_marker_none_other(t: Seq<char>)
    requires none_other(t),
    ensures none_other(t + escaped_marker()),
{
    assert forall|k: int| 0 <= k < (t + escaped_marker()).len() implies !is_other(#[trigger] (t + escaped_marker())[k]) by {
        if k < t.len() { assert((t + escaped_marker())[k] == t[k]); }
        else { let c = escaped_marker()[k - t.len()]; assert((t + escaped_marker())[k] == c); assert(printable_char(c)); axiom_printable_not_other(c); }
    }
}
proof fn lemma_printable_none_other(t: Seq<char>) requires all_printable(t) ensures none_other(t) {
    assert forall|k: int| 0 <= k < t.len() implies !is_other(#[trigger] t[k]) by { axiom_printable_not_other(t[k]); }
}
proof fn lemma_lf_chars(cs: Seq<char>)
    requires no_lf(encode_utf8(cs)),
    ensures no_lf_char(cs),
    decreases cs.len()
{
    if cs.len() > 0 {
        let init = cs.drop_last(); let c = cs.last();
        encode_utf8_concat(init, seq![c]);
        assert(init + seq![c] =~= cs);
        let a = encode_utf8(init); let b = encode_utf8(seq![c]);
        assert(no_lf(a)) by { assert forall|k: int| 0 <= k < a.len() implies a[k] != 10u8 by { assert((a + b)[k] == a[k]); } }
        lemma_lf_chars(init);
        if c == '\n' {
            lemma_ascii_utf8('\n');
            assert((a + b)[a.len() as int] == b[0]);
            assert(false);
        }
        assert forall|k: int| 0 <= k < cs.len() implies cs[k] != '\n' by { if k < init.len() { assert(cs[k] == init[k]); } }
    }
}
/// has_unprintable_unicode: not UTF-8, or some char is in a C* category
pub open spec fn unp_unicode(bs: Seq<u8>) -> bool { !valid_utf8(bs) || exists|cs: Seq<char>| #[trigger] encode_utf8(cs) == bs && any_other(cs) }
/// ... and since UTF-8 encoding is injective, any decoding decides it
pub proof fn lemma_unp_unicode(bs: Seq<u8>)
    ensures forall|cs: Seq<char>| #[trigger] encode_utf8(cs) == bs ==> valid_utf8(bs) && unp_unicode(bs) == any_other(cs),
{
    assert forall|cs: Seq<char>| #[trigger] encode_utf8(cs) == bs implies valid_utf8(bs) && unp_unicode(bs) == any_other(cs) by {
        encode_utf8_valid_utf8(cs);
        assert forall|cs2: Seq<char>| encode_utf8(cs2) == bs implies cs2 == cs by { encode_utf8_decode_utf8(cs2); encode_utf8_decode_utf8(cs); }
    }
}
/// everything the two branches of escaped_expectation_unicode can return, given what its callees return
pub proof fn lemma_unicode_expectation(bs: Seq<u8>, escaped: Seq<char>, encoded: Seq<char>)
    requires
        encoded == lossy(bs),
        valid_utf8(bs) ==> exists|cs: Seq<char>| #[trigger] encode_utf8(cs) == bs && escaped == enc_u(cs, any_other(cs)),
        !valid_utf8(bs) ==> escaped == printable_ascii_of(bs),
    ensures
        none_other(if encoded == escaped { encoded } else { protect(escaped) + escaped_marker() }),
        no_lf(bs) ==> written_for(if encoded == escaped { encoded } else { protect(escaped) + escaped_marker() }, bs),
        exp_form(if encoded == escaped { encoded } else { protect(escaped) + escaped_marker() }, bs, unp_unicode(bs)),
{
    if valid_utf8(bs) {
        let cs = choose|cs: Seq<char>| #[trigger] encode_utf8(cs) == bs && escaped == enc_u(cs, any_other(cs));
        axiom_lossy_valid(cs);
        assert(encoded == cs);
        // UTF-8 encoding is injective: cs is THE decoding of bs
        assert forall|cs2: Seq<char>| encode_utf8(cs2) == bs implies cs2 == cs by { encode_utf8_decode_utf8(cs2); encode_utf8_decode_utf8(cs); }
        assert(unp_unicode(bs) == any_other(cs));
        lemma_enc_u_none_other(cs, any_other(cs));
        lemma_protect_none_other(escaped);
        lemma_marker_none_other(protect(escaped));
        if !any_other(cs) {
            lemma_enc_u_identity(cs);
            assert(escaped == cs);
        } else {
            // the plain text contains an "other" char, the escaped one does not: they differ
            let k = choose|k: int| 0 <= k < cs.len() && is_other(#[trigger] cs[k]);
            if encoded == escaped { assert(!is_other(escaped[k])); assert(false); }
            if no_lf(bs) { lemma_lf_chars(cs); lemma_roundtrip_unicode_protected(cs); }
        }
    } else {
        // not UTF-8: some byte is >= 0x80, so the ascii escaper takes over
        if !exists_unprintable(bs) {
            assert forall|k: int| 0 <= k < bs.len() implies bs[k] < 0x80 by { assert(printable_ascii(bs[k])); }
            lemma_plain_is_line(bs);
            encode_utf8_valid_utf8(ascii_chars(bs));
            assert(false);
        }
        axiom_lossy_unprintable(bs);
        lemma_enc_ascii_printable(bs);
        lemma_printable_none_other(enc_ascii(bs));
        lemma_protect_none_other(escaped);
        lemma_marker_none_other(protect(escaped));
        if no_lf(bs) { lemma_roundtrip_ascii_protected(bs); }
    }
}

// ------------------------------------------------------------------ the expectation text as a function of the content (used by C09)
/// escaped_expectation_ascii as a function of the content
pub open spec fn exp_text_ascii(bs: Seq<u8>) -> Seq<char> {
    if lossy(bs) == printable_ascii_of(bs) { lossy(bs) } else { protect(printable_ascii_of(bs)) + escaped_marker() }
}
/// escaped_printable_unicode as a function of the bytes
pub open spec fn printable_unicode_of(bs: Seq<u8>) -> Seq<char> {
    if valid_utf8(bs) { enc_u(decode_utf8(bs), any_other(decode_utf8(bs))) } else { printable_ascii_of(bs) }
}
/// escaped_expectation_unicode as a function of the content
pub open spec fn exp_text_unicode(bs: Seq<u8>) -> Seq<char> {
    if lossy(bs) == printable_unicode_of(bs) { lossy(bs) } else { protect(printable_unicode_of(bs)) + escaped_marker() }
}
/// what escaped_printable_unicode returns IS printable_unicode_of (the decoding is unique)
pub proof fn lemma_printable_unicode_of(bs: Seq<u8>, r: Seq<char>)
    requires valid_utf8(bs) ==> exists|cs: Seq<char>| #[trigger] encode_utf8(cs) == bs && r == enc_u(cs, any_other(cs)),
        !valid_utf8(bs) ==> r == printable_ascii_of(bs),
    ensures r == printable_unicode_of(bs),
{
    if valid_utf8(bs) {
        let cs = choose|cs: Seq<char>| #[trigger] encode_utf8(cs) == bs && r == enc_u(cs, any_other(cs));
        encode_utf8_decode_utf8(cs);
    }
}
/// the ascii text has the form C11 proves
pub proof fn lemma_exp_text_ascii(bs: Seq<u8>)
    ensures exp_form(exp_text_ascii(bs), bs, exists_unprintable(bs)),
{
    lemma_enc_ascii_printable(bs);
    if exists_unprintable(bs) {
        axiom_lossy_unprintable(bs);
        if no_lf(bs) { lemma_roundtrip_ascii_protected(bs); }
        assert(exp_text_ascii(bs) == protect(enc_ascii(bs)) + escaped_marker());
    } else {
        assert forall|k: int| 0 <= k < bs.len() implies bs[k] < 0x80 by { assert(printable_ascii(bs[k])); }
        axiom_lossy_ascii(bs);
        lemma_plain_is_line(bs);
    }
}
/// ... and so has the unicode text
pub proof fn lemma_exp_text_unicode(bs: Seq<u8>)
    ensures exp_form(exp_text_unicode(bs), bs, unp_unicode(bs)),
{
    if valid_utf8(bs) { decode_utf8_encode_utf8(bs); assert(encode_utf8(decode_utf8(bs)) == bs); }
    lemma_unicode_expectation(bs, printable_unicode_of(bs), lossy(bs));
}
