// ---- escape_roundtrip.rs: C11 — the escaped rendering decodes back to the original bytes, and is printable.
// Pure lemmas over the specs of escape_lang.rs (encoder table enc_a / enc_ascii, decoders unesc / resolve).

// ------------------------------------------------------------------ assumed facts about dependencies (TRUSTED; each is
// validated against the real function by the thorough tier: exhaustively over 256 bytes / boundedly over byte strings)
/// u8::from_str_radix(<two lower-case hex digits of b>, 16) == Ok(b)
#[verifier::external_body]
pub proof fn axiom_radix_hex2(b: u8) ensures radix_u8(hex2(b), 16u32) == Some(b) {}
/// String::from_utf8_lossy on ASCII bytes is the identity
#[verifier::external_body]
pub proof fn axiom_lossy_ascii(bs: Seq<u8>)
    requires forall|k: int| 0 <= k < bs.len() ==> bs[k] < 0x80,
    ensures lossy(bs) == ascii_chars(bs) {}
/// ... and a control byte, DEL or a byte >= 0x80 never decodes to printable ASCII only
#[verifier::external_body]
pub proof fn axiom_lossy_unprintable(bs: Seq<u8>)
    requires exists_unprintable(bs),
    ensures exists|k: int| 0 <= k < lossy(bs).len() && !printable_char(#[trigger] lossy(bs)[k]) {}

pub open spec fn ascii_chars(bs: Seq<u8>) -> Seq<char> { Seq::new(bs.len(), |i: int| bs[i] as char) }
pub open spec fn printable_char(c: char) -> bool { 0x20 <= c as u32 <= 0x7e }
pub open spec fn all_printable(s: Seq<char>) -> bool { forall|k: int| 0 <= k < s.len() ==> printable_char(#[trigger] s[k]) }
pub open spec fn no_lf(bs: Seq<u8>) -> bool { forall|k: int| 0 <= k < bs.len() ==> bs[k] != 10u8 }

// ------------------------------------------------------------------ per token
/// what the token of byte b looks like after stage 1
pub open spec fn u_tok(b: u8) -> Seq<char> {
    if b == 13 { seq!['\r'] } else if b == 9 { seq!['\t'] } else if b == 7 { seq!['\x07'] } else if b == 8 { seq!['\x08'] }
    else if b == 12 { seq!['\x0c'] } else if b == 11 { seq!['\x0b'] } else if b == 92 { seq!['\\', '\\'] }
    else if 0x20 <= b <= 0x7e { seq![b as char] } else { seq!['\\', 'x'] + hex2(b) }
}
pub proof fn lemma_hexdigit_plain(d: int) requires 0 <= d < 16 ensures hexdigit(d) != '\\', printable_char(hexdigit(d)) {}

/// stage 1 consumes exactly one token
pub proof fn lemma_tok_unesc(b: u8, s: Seq<char>)
    requires b != 10,
    ensures unesc(enc_a(b) + s) == u_tok(b) + unesc(s),
{
    let t = enc_a(b) + s;
    if b == 13 || b == 9 || b == 7 || b == 8 || b == 12 || b == 11 || b == 92 {
        assert(t[0] == '\\'); assert(t.len() >= 2); assert(t.skip(2) =~= s);
        assert(unesc(t) == unesc_pair(t[1]) + unesc(t.skip(2)));
        assert(unesc_pair(t[1]) =~= u_tok(b));
    } else if 0x20 <= b <= 0x7e {
        assert(t[0] == b as char); assert(t[0] != '\\'); assert(t.skip(1) =~= s);
        assert(seq![t[0]] =~= u_tok(b));
    } else {
        let h1 = hexdigit(b as int / 16); let h2 = hexdigit(b as int % 16);
        lemma_hexdigit_plain(b as int / 16); lemma_hexdigit_plain(b as int % 16);
        assert(t =~= seq!['\\', 'x', h1, h2] + s);
        assert(t[0] == '\\' && t[1] == 'x');
        let t2 = t.skip(2); assert(t2 =~= seq![h1, h2] + s);
        assert(unesc(t) == unesc_pair('x') + unesc(t2));
        assert(t2[0] == h1); let t3 = t2.skip(1); assert(t3 =~= seq![h2] + s);
        assert(unesc(t2) == seq![h1] + unesc(t3));
        assert(t3[0] == h2); assert(t3.skip(1) =~= s);
        assert(unesc(t3) == seq![h2] + unesc(s));
        assert(unesc(t) =~= seq!['\\', 'x', h1, h2] + unesc(s));
        assert(u_tok(b) =~= seq!['\\', 'x', h1, h2]);
    }
}
proof fn lemma_ascii_utf8(c: char) requires (c as u32) < 128 ensures encode_utf8(seq![c]) =~= seq![c as u8] {
    assert(is_ascii_chars(seq![c]));
    is_ascii_chars_encode_utf8(seq![c]);
}
/// stage 2 turns the token back into the byte
pub proof fn lemma_tok_resolve(b: u8, r: Seq<char>)
    requires b != 10,
    ensures opt_eq(resolve(u_tok(b) + r), prepend(seq![b], resolve(r))),
{
    let t = u_tok(b) + r;
    if b == 13 || b == 9 || b == 7 || b == 8 || b == 12 || b == 11 || (0x20 <= b <= 0x7e && b != 92) {
        let c = t[0];
        assert(c != '\\'); assert(t.skip(1) =~= r);
        lemma_ascii_utf8(c);
        assert(c as u8 == b);
        assert(resolve(t) == prepend(encode_utf8(seq![c]), resolve(r)));
    } else if b == 92 {
        assert(t[0] == '\\' && t[1] == '\\'); assert(t.skip(2) =~= r);
        assert(resolve(t) == prepend(seq![92u8], resolve(r)));
    } else {
        let h1 = hexdigit(b as int / 16); let h2 = hexdigit(b as int % 16);
        assert(t =~= seq!['\\', 'x', h1, h2] + r);
        assert(t[0] == '\\' && t[1] == 'x' && t.len() >= 4); assert(t.skip(4) =~= r);
        assert(seq![t[2], t[3]] =~= hex2(b));
        axiom_radix_hex2(b);
        assert(resolve(t) == prepend(seq![b], resolve(r)));
    }
}
/// every token is printable ASCII
pub proof fn lemma_tok_printable(b: u8) ensures all_printable(enc_a(b)) {
    lemma_hexdigit_plain(b as int / 16); lemma_hexdigit_plain(b as int % 16);
    assert forall|k: int| 0 <= k < enc_a(b).len() implies printable_char(#[trigger] enc_a(b)[k]) by {}
}

// ------------------------------------------------------------------ whole strings
pub open spec fn u_all(bs: Seq<u8>) -> Seq<char> decreases bs.len() {
    if bs.len() == 0 { Seq::empty() } else { u_all(bs.drop_last()) + u_tok(bs.last()) }
}
pub proof fn lemma_all_unesc(bs: Seq<u8>, s: Seq<char>)
    requires no_lf(bs),
    ensures unesc(enc_ascii(bs) + s) == u_all(bs) + unesc(s),
    decreases bs.len()
{
    if bs.len() == 0 {
        assert(enc_ascii(bs) + s =~= s); assert(u_all(bs) + unesc(s) =~= unesc(s));
    } else {
        let init = bs.drop_last(); let b = bs.last();
        assert(no_lf(init)) by { assert forall|k: int| 0 <= k < init.len() implies init[k] != 10u8 by { assert(init[k] == bs[k]); } }
        lemma_all_unesc(init, enc_a(b) + s);
        lemma_tok_unesc(b, s);
        assert(enc_ascii(bs) + s =~= enc_ascii(init) + (enc_a(b) + s));
        assert(u_all(init) + (u_tok(b) + unesc(s)) =~= u_all(bs) + unesc(s));
    }
}
pub proof fn lemma_all_resolve(bs: Seq<u8>, r: Seq<char>)
    requires no_lf(bs),
    ensures opt_eq(resolve(u_all(bs) + r), prepend(bs, resolve(r))),
    decreases bs.len()
{
    if bs.len() == 0 {
        assert(u_all(bs) + r =~= r);
        match resolve(r) { Some(t) => { assert(bs + t =~= t); } None => {} }
    } else {
        let init = bs.drop_last(); let b = bs.last();
        assert(no_lf(init)) by { assert forall|k: int| 0 <= k < init.len() implies init[k] != 10u8 by { assert(init[k] == bs[k]); } }
        lemma_all_resolve(init, u_tok(b) + r);
        lemma_tok_resolve(b, r);
        assert(u_all(bs) + r =~= u_all(init) + (u_tok(b) + r));
        match resolve(r) {
            Some(t) => { assert(init + (seq![b] + t) =~= bs + t); }
            None => {}
        }
    }
}
/// C11 (lossless, ascii mode): the escaped rendering of a line without inner LF decodes to exactly that line
pub proof fn lemma_roundtrip_ascii(bs: Seq<u8>)
    requires no_lf(bs),
    ensures opt_eq(decode(enc_ascii(bs)), Some(bs)),
{
    lemma_all_unesc(bs, Seq::empty());
    assert(enc_ascii(bs) + Seq::<char>::empty() =~= enc_ascii(bs));
    assert(unesc(Seq::<char>::empty()) =~= Seq::<char>::empty());
    assert(u_all(bs) + Seq::<char>::empty() =~= u_all(bs));
    lemma_all_resolve(bs, Seq::empty());
    assert(bs + Seq::<u8>::empty() =~= bs);
}
/// C11 (printable, ascii mode)
pub proof fn lemma_enc_ascii_printable(bs: Seq<u8>) ensures all_printable(enc_ascii(bs)) decreases bs.len() {
    if bs.len() > 0 {
        lemma_enc_ascii_printable(bs.drop_last());
        lemma_tok_printable(bs.last());
        assert forall|k: int| 0 <= k < enc_ascii(bs).len() implies printable_char(#[trigger] enc_ascii(bs)[k]) by {
            let a = enc_ascii(bs.drop_last());
            if k < a.len() { assert(enc_ascii(bs)[k] == a[k]); } else { assert(enc_ascii(bs)[k] == enc_a(bs.last())[k - a.len()]); }
        }
    }
}

// ------------------------------------------------------------------ what "the text scrut writes for a line" must satisfy
pub open spec fn escaped_marker() -> Seq<char> { seq![' ', '(', 'e', 's', 'c', 'a', 'p', 'e', 'd', ')'] }
/// either the text IS the line (an `equal` expectation: its UTF-8 bytes are the line's content), or it is `t (escaped)`
/// where the escaped expression t decodes to exactly the line's content (so, by the EscapedRule contract, it matches the
/// original line and no line with different content)
pub open spec fn written_for(text: Seq<char>, content: Seq<u8>) -> bool {
    encode_utf8(text) == content
    || exists|t: Seq<char>| #[trigger] (t + escaped_marker()) == text && opt_eq(decode(t), Some(content))
}
pub proof fn lemma_plain_is_line(bs: Seq<u8>)
    requires forall|k: int| 0 <= k < bs.len() ==> bs[k] < 0x80,
    ensures encode_utf8(ascii_chars(bs)) == bs,
{
    let s = ascii_chars(bs);
    assert(is_ascii_chars(s));
    is_ascii_chars_encode_utf8(s);
    assert(encode_utf8(s) =~= bs);
}
pub proof fn lemma_suffix_printable(t: Seq<char>)
    requires all_printable(t),
    ensures all_printable(t + escaped_marker()),
{
    assert forall|k: int| 0 <= k < (t + escaped_marker()).len() implies printable_char(#[trigger] (t + escaped_marker())[k]) by {
        if k < t.len() { assert((t + escaped_marker())[k] == t[k]); }
    }
}
