// ---- gen_lang.rs: what the generators write for an outcome (C09)
/// Escaper::escaped_expectation / has_unprintable as functions of the content (the per-mode functions are those of unit escaping, C11)
pub open spec fn exp_text(e: Escaper, c: Seq<u8>) -> Seq<char> { match e { Escaper::Ascii => exp_text_ascii(c), Escaper::Unicode => exp_text_unicode(c) } }
pub open spec fn esc_unp(e: Escaper, c: Seq<u8>) -> bool { match e { Escaper::Ascii => exists_unprintable(c), Escaper::Unicode => unp_unicode(c) } }
/// the exit code line `[n]`: written exactly for a non-zero exit code
pub open spec fn exit_text(e: ExitStatus) -> Option<Seq<char>> {
    match e { ExitStatus::Code(code) => if code != 0 { Some(seq!['['] + int_text(code as int) + seq![']', '\n']) } else { None }, _ => None }
}
pub open spec fn assure_nl_bytes(b: Seq<u8>) -> Seq<u8> { if ends_nl(b) { b } else { b.push(10u8) } }
/// the command as it is written: `$ ` + first line, `> ` + every further line (lossy UTF-8 text of each line with its line feed)
pub open spec fn expr_text_upto(ls: Seq<Seq<u8>>, k: int) -> Seq<char> decreases k {
    if k <= 0 { Seq::empty() }
    else if k == 1 { seq!['$', ' '] + lossy(assure_nl_bytes(ls[0])) }
    else { expr_text_upto(ls, k - 1) + seq!['>', ' '] + lossy(assure_nl_bytes(ls[k - 1])) }
}
/// (an empty command is written as `$ ` alone)
pub open spec fn expr_text(ls: Seq<Seq<u8>>) -> Seq<char> { if ls.len() == 0 { seq!['$', ' ', '\n'] } else { expr_text_upto(ls, ls.len() as int) } }
pub proof fn lemma_split_nonempty(l: Seq<Seq<u8>>, b: Seq<u8>)
    requires is_split(l, b), b.len() > 0,
    ensures l.len() > 0,
{}
pub open spec fn no_eol_marker() -> Seq<char> { seq![' ', '(', 'n', 'o', '-', 'e', 'o', 'l', ')'] }
pub open spec fn escaped_marker_s() -> Seq<char> { seq![' ', '(', 'e', 's', 'c', 'a', 'p', 'e', 'd', ')'] }
/// the expectation lines of a passing test: exactly as written in the document
pub open spec fn exps_text(es: Seq<Expectation>, k: int) -> Seq<char> decreases k {
    if k <= 0 { Seq::empty() } else { exps_text(es, k - 1) + assure_nl(es[k - 1].original@) }
}
pub open spec fn equal_marker() -> Seq<char> { seq![' ', '(', 'e', 'q', 'u', 'a', 'l', ')'] }
/// what follows the expectation text of an output line: nothing after an escaped rendering (it disregards the line feed); ` (no-eol)` when
/// the line has no line feed; ` (equal)` when the text itself ends like a modifier or is an exit-code line `[n]` (it would be read as
/// that otherwise)
pub open spec fn line_suffix(e: Escaper, content: Seq<u8>, no_eol: bool) -> Seq<char> {
    if esc_unp(e, content) { Seq::empty() } else if no_eol { no_eol_marker() }
    else if has_proper_mod(dreg(), exp_text(e, content)) || exit_code_of(exp_text(e, content)) is Some { equal_marker() } else { Seq::empty() }
}
/// one unexpected output line as it is written (without the terminating line feed of the document line)
pub open spec fn out_line(e: Escaper, line: Seq<u8>) -> Seq<char> { exp_text(e, strip_nl(line)) + line_suffix(e, strip_nl(line), !ends_nl(line)) }
pub open spec fn out_line_text(e: Escaper, line: Seq<u8>) -> Seq<char> { out_line(e, line) + seq!['\n'] }
pub open spec fn unexpected_text(e: Escaper, lines: Seq<(usize, Vec<u8>)>, k: int) -> Seq<char> decreases k {
    if k <= 0 { Seq::empty() } else { unexpected_text(e, lines, k - 1) + out_line_text(e, lines[k - 1].1@) }
}
/// the body for a failed comparison: matched expectations as written, unexpected output lines as new expectations, unmatched
/// expectations dropped
pub open spec fn diff_text(e: Escaper, dl: Seq<DiffLine>, k: int) -> Seq<char> decreases k {
    if k <= 0 { Seq::empty() } else {
        diff_text(e, dl, k - 1) + (match dl[k - 1] {
            DiffLine::MatchedExpectation { index, expectation, lines } => assure_nl(expectation.original@),
            DiffLine::UnexpectedLines { lines } => unexpected_text(e, lines@, lines@.len() as int),
            _ => Seq::empty(),
        })
    }
}
/// OutputStream::to_output_string: every line of the stream as an expectation line; only the last one can lack its line feed
pub open spec fn out_string(prefix: Seq<char>, e: Escaper, bytes: Seq<u8>, ls: Seq<Seq<u8>>, k: int) -> Seq<char> decreases k {
    if k <= 0 { Seq::empty() } else {
        let c = strip_nl(ls[k - 1]);
        out_string(prefix, e, bytes, ls, k - 1) + prefix + exp_text(e, c) + line_suffix(e, c, !ends_nl(bytes) && k == ls.len()) + seq!['\n']
    }
}
pub open spec fn opt_text(o: Option<Seq<char>>) -> Seq<char> { match o { Some(t) => t, None => Seq::empty() } }
/// what is written for an outcome (None: nothing can be generated)
pub open spec fn gen_spec(o: Outcome) -> Option<Seq<char>> {
    let expr = expr_text(lines_of(encode_utf8(o.testcase.shell_expression@)));
    match o.result {
        Ok(_) => Some(expr + exps_text(o.testcase.expectations@, o.testcase.expectations@.len() as int) + opt_text(exit_text(o.output.exit_code))),
        Err(TestCaseError::MalformedOutput(diff)) => Some(expr + diff_text(o.escaping, diff.lines@, diff.lines@.len() as int) + opt_text(exit_text(o.output.exit_code))),
        Err(TestCaseError::InvalidExitCode { actual, expected }) => {
            // the stream the test case is VALIDATED against (TestCase::validate: stderr iff output_stream == stderr), so that the written
            // block passes against "that same output"
            let bytes = if o.testcase.config.output_stream == Some(OutputStreamControl::Stderr) { o.output.stderr.0@ } else { o.output.stdout.0@ };
            let out = out_string(Seq::empty(), o.escaping, bytes, lines_of(bytes), lines_of(bytes).len() as int);
            let out2 = if out.len() > 0 && out.last() != '\n' { out + no_eol_marker() + seq!['\n'] } else { out };
            Some(expr + out2 + seq!['['] + int_text(actual as int) + seq![']', '\n'])
        },
        _ => None,
    }
}
pub proof fn lemma_strip_nl_idem(b: Seq<u8>)
    ensures strip_nl(strip_nl(b)) == strip_nl(b), !ends_nl(strip_nl(b)),
    decreases b.len()
{
    if ends_nl(b) { lemma_strip_nl_idem(b.drop_last()); }
}
// ------------------------------------------------------------------ what the statement of C09 says about the written lines
pub open spec fn noeol_word() -> Seq<char> { seq!['n', 'o', '-', 'e', 'o', 'l'] }
/// the written line reads back -- expectation grammar (C08: line_parts with the default registry) and rule kinds (C04: equal matches
/// text + LF, no-eol matches the text, escaped matches what EscapedRule::make reads the expression as -- a trailing ` (no-eol)` dropped, the rest decoded --, with or without LF) -- as an unquantified
/// expectation that matches exactly the output line it was written for
pub open spec fn reads_back(text: Seq<char>, line: Seq<u8>) -> bool {
    let p = line_parts(dreg(), text);
    p.2.len() == 0 && (
        (p.1 == equal_word() && line == encode_utf8(p.0).push(10u8))
        || (p.1 == noeol_word() && line == encode_utf8(p.0))
        || (p.1 == escaped_word() && opt_eq(read_back(p.0), Some(strip_nl(line)))))
}
/// what the expectation text is (over the functions of unit escaping: lemma_exp_text_ascii / lemma_exp_text_unicode): printable
/// content is written as itself, anything else as an escaped expression that decodes to it, followed by the marker
pub proof fn lemma_exp_text(e: Escaper, c: Seq<u8>)
    requires no_lf(c),
    ensures !esc_unp(e, c) ==> encode_utf8(exp_text(e, c)) == c,
        esc_unp(e, c) ==> exists|t: Seq<char>| #[trigger] (t + escaped_marker()) == exp_text(e, c) && opt_eq(read_back(t), Some(c)),
{
    match e { Escaper::Ascii => lemma_exp_text_ascii(c), Escaper::Unicode => lemma_exp_text_unicode(c) }
}
/// C09 at the level of one output line: the line written for an output line (with its line feed, or the last one without) reads back
/// as an expectation that matches that line
pub proof fn lemma_line_reads_back(e: Escaper, line: Seq<u8>)
    requires no_lf(strip_nl(line)), ends_nl(line) ==> line == strip_nl(line).push(10u8),
    ensures reads_back(out_line(e, line), line),
{
    hide(read_back);
    let c = strip_nl(line);
    let t0 = exp_text(e, c);
    lemma_exp_text(e, c);
    axiom_default_registry();
    lemma_strip_nl_idem(line);
    if esc_unp(e, c) {
        let t = choose|t: Seq<char>| #[trigger] (t + escaped_marker()) == exp_text(e, c) && opt_eq(read_back(t), Some(c));
        assert(out_line(e, line) =~= t0);
        assert(with_mod(t, escaped_word(), Seq::empty()) =~= t + escaped_marker());
        lemma_with_mod_parts(dreg(), t, escaped_word(), Seq::empty());
    } else if !ends_nl(line) {
        assert(strip_nl(line) == line);
        assert(out_line(e, line) =~= with_mod(t0, noeol_word(), Seq::empty()));
        lemma_with_mod_parts(dreg(), t0, noeol_word(), Seq::empty());
    } else if has_proper_mod(dreg(), t0) || exit_code_of(t0) is Some {
        assert(out_line(e, line) =~= with_mod(t0, equal_word(), Seq::empty()));
        lemma_with_mod_parts(dreg(), t0, equal_word(), Seq::empty());
    } else {
        assert(out_line(e, line) =~= t0);
    }
}
/// in the split of a stream every line has exactly one line feed, at its end -- except the last line of a stream that does not end in one
pub proof fn lemma_split_line_shape(ls: Seq<Seq<u8>>, bytes: Seq<u8>, k: int)
    requires is_split(ls, bytes), 1 <= k <= ls.len(),
    ensures ({ let l = ls[k - 1]; no_lf(strip_nl(l)) && (ends_nl(l) ==> l == strip_nl(l).push(10u8)) && ((!ends_nl(bytes) && k == ls.len()) == !ends_nl(l)) }),
{
    let l = ls[k - 1];
    assert(l.len() >= 1 && forall|j: int| 0 <= j < l.len() - 1 ==> l[j] != 10u8) by { if k < ls.len() { assert(full_line(ls[k - 1])); } }
    if ends_nl(l) {
        let d = l.drop_last();
        assert(!ends_nl(d)) by { if d.len() > 0 { assert(d.last() == l[l.len() - 2]); } }
        assert(strip_nl(d) == d);
        assert(strip_nl(l) == strip_nl(l.drop_last()));
        assert(strip_nl(l) == d);
        assert(l =~= d.push(10u8));
        assert(no_lf(d)) by { assert forall|j: int| 0 <= j < d.len() implies d[j] != 10u8 by { assert(d[j] == l[j]); } }
    } else {
        assert(strip_nl(l) == l);
        assert(no_lf(l)) by { assert forall|j: int| 0 <= j < l.len() implies l[j] != 10u8 by { if j == l.len() - 1 { assert(l.last() != 10u8); } } }
    }
    // the last byte of the stream is the last byte of the last line
    if k == ls.len() {
        assert(ls.drop_last().push(ls.last()) =~= ls);
        lemma_concat_push(ls.drop_last(), ls.last());
        assert(bytes == concat(ls.drop_last()) + ls.last());
        assert(bytes.last() == ls.last().last());
    } else { assert(full_line(ls[k - 1])); }
}
/// C09 for OutputStream::to_output_string: every line written for the stream reads back as an expectation for its output line
pub proof fn lemma_out_string_reads_back(e: Escaper, bytes: Seq<u8>, k: int)
    requires is_split(lines_of(bytes), bytes), 1 <= k <= lines_of(bytes).len(),
    ensures ({ let l = lines_of(bytes)[k - 1]; let c = strip_nl(l);
        reads_back(exp_text(e, c) + line_suffix(e, c, !ends_nl(bytes) && k == lines_of(bytes).len()), l) }),
{
    let ls = lines_of(bytes);
    lemma_split_line_shape(ls, bytes, k);
    lemma_line_reads_back(e, ls[k - 1]);
}
/// the exit-code pattern `^\[([0-9]+)\]$` (regex crate, uninterpreted exit_code_of): a line it accepts ends in `]`. TRUSTED.
#[verifier::external_body]
pub proof fn axiom_exit_code_shape(l: Seq<char>) ensures exit_code_of(l) is Some ==> l.len() >= 3 && l.last() == ']' {}
/// ... and no written output line is read as the exit code of the test
pub proof fn lemma_line_not_exit_code(e: Escaper, line: Seq<u8>)
    requires no_lf(strip_nl(line)),
    ensures exit_code_of(out_line(e, line)) is None,
{
    let c = strip_nl(line); let t0 = exp_text(e, c);
    lemma_exp_text(e, c);
    axiom_exit_code_shape(out_line(e, line));
    if esc_unp(e, c) {
        let t = choose|t: Seq<char>| #[trigger] (t + escaped_marker()) == exp_text(e, c) && opt_eq(read_back(t), Some(c));
        assert(out_line(e, line) =~= t + escaped_marker());
        assert((t + escaped_marker()).last() == ')');
    } else if !ends_nl(line) { assert(out_line(e, line) =~= t0 + no_eol_marker()); assert((t0 + no_eol_marker()).last() == ')'); }
    else if has_proper_mod(dreg(), t0) || exit_code_of(t0) is Some { assert(out_line(e, line) =~= t0 + equal_marker()); assert((t0 + equal_marker()).last() == ')'); }
    else { assert(out_line(e, line) =~= t0); }
}
