// ---- mdparse_lang.rs: what MarkdownParser::parse makes of the token sequence (C06, parser level)
// serde_yaml and the title regexes (\p{L}+, `# header`) are dependencies: uninterpreted partial functions of the text
pub uninterp spec fn yaml_doc_ok(text: Seq<char>) -> bool;
pub uninterp spec fn yaml_doc(text: Seq<char>) -> DocumentConfig;
pub uninterp spec fn yaml_tc_ok(text: Seq<char>) -> bool;
pub uninterp spec fn yaml_tc(text: Seq<char>) -> TestCaseConfig;
pub uninterp spec fn title_of(line: Seq<char>) -> Option<(Seq<char>, Seq<char>)>;
#[verifier::external_body]
pub fn __yaml_document_config(text: &String) -> (r: anyhow::Result<DocumentConfig>)
    ensures (r is Ok) == yaml_doc_ok(text@), r is Ok ==> r->Ok_0 == yaml_doc(text@) { unimplemented!() }
#[verifier::external_body]
pub fn __yaml_testcase_config(text: &String) -> (r: anyhow::Result<TestCaseConfig>)
    ensures (r is Ok) == yaml_tc_ok(text@), r is Ok ==> r->Ok_0 == yaml_tc(text@) { unimplemented!() }

pub open spec fn numbered_texts(v: Seq<(usize, String)>) -> Seq<Seq<char>> { Seq::new(v.len(), |i: int| v[i].1@) }
/// state of the parser between tokens
pub struct MdS { pub lp: LpS, pub titles: Seq<Seq<char>> }
/// the body of a test block: every code line through the LineParser (one command per block), then the end of the test
pub open spec fn md_body(s: LpS, code: Seq<(usize, String)>, k: int) -> Option<LpS> decreases k {
    if k <= 0 { Some(s) } else { match md_body(s, code, k - 1) { None => None, Some(s1) => s_body(s1, code[k - 1].1@, code[k - 1].0 as int) } }
}
pub open spec fn last_number(code: Seq<(usize, String)>) -> int { if code.len() > 0 { code.last().0 as int } else { 0 } }
pub open spec fn braced(s: Seq<char>) -> Seq<char> { seq!['{'] + s + seq!['}'] }
/// LineParser state / test cases compared without the configuration (its layering is C16's subject)
pub open spec fn lps_eq_nocfg(a: LpS, b: LpS) -> bool {
    a.title == b.title && a.cmd =~= b.cmd && a.exit == b.exit && a.exps =~= b.exps && a.in_cmd == b.in_cmd && a.multi == b.multi
    && a.start == b.start && tcvs_same_nocfg(a.done, b.done)
}
pub open spec fn tcv_same_nocfg(a: Tcv, b: Tcv) -> bool {
    a.title == b.title && a.expr == b.expr && a.exps =~= b.exps && a.exit == b.exit && a.line == b.line
}
pub open spec fn tcvs_same_nocfg(a: Seq<Tcv>, b: Seq<Tcv>) -> bool {
    a.len() == b.len() && forall|i: int| 0 <= i < a.len() ==> tcv_same_nocfg(#[trigger] a[i], b[i])
}
/// what one token means to the parser: None = error
pub open spec fn md_step(s: MdS, t: MarkdownToken) -> Option<MdS> {
    match t {
        MarkdownToken::DocumentConfig(lines) =>
            if yaml_doc_ok(join_nl(numbered_texts(lines@))) { Some(s) } else { None },
        MarkdownToken::Line(_, line) => match title_of(line@) {
            // consecutive title lines form one title paragraph
            Some(t) => { let ts = s.titles.push(t.1); Some(MdS { lp: LpS { title: Some(join_nl(ts)), ..s.lp }, titles: ts, ..s }) },
            None => Some(MdS { titles: Seq::empty(), ..s }),
        },
        MarkdownToken::VerbatimCodeBlock { starting_line_number, language, lines } =>
            // a code block of another language ends the title paragraph before it (the pending title stays)
            if language@.len() == 0 { None } else { Some(MdS { titles: Seq::empty(), ..s }) },
        MarkdownToken::TestCodeBlock { language, config_lines, comment_lines, code_lines } =>
            if config_lines@.len() > 0 && !yaml_tc_ok(braced(join_nl(numbered_texts(config_lines@)))) { None }
            else {
                match md_body(s.lp, code_lines@, code_lines@.len() as int) {
                    None => None,
                    Some(l1) => match s_end(l1, last_number(code_lines@)) {
                        None => None,
                        Some(l2) => Some(MdS { lp: l2, titles: Seq::empty(), ..s }),
                    },
                }
            },
    }
}
pub open spec fn md_init() -> MdS { MdS { lp: lp_init(false), titles: Seq::empty() } }
pub open spec fn md_fold(toks: Seq<MarkdownToken>, k: int) -> Option<MdS> decreases k {
    if k <= 0 { Some(md_init()) } else { match md_fold(toks, k - 1) { None => None, Some(s) => md_step(s, toks[k - 1]) } }
}
/// toks is a tokenization of the first cuts.last() lines: token i accounts for exactly lines [cuts[i], cuts[i+1])
pub open spec fn tokenization(toks: Seq<MarkdownToken>, cuts: Seq<int>, ls: Seq<Seq<char>>, langs: Seq<Seq<char>>) -> bool {
    &&& cuts.len() == toks.len() + 1 && cuts[0] == 0
    &&& forall|i: int| 0 <= i < toks.len() ==> 0 <= #[trigger] cuts[i] < cuts[i + 1] <= ls.len()
            && token_ok_any(toks[i], ls.subrange(cuts[i], cuts[i + 1]), cuts[i], langs)
}
pub open spec fn token_ok_any(t: MarkdownToken, seg: Seq<Seq<char>>, n: int, langs: Seq<Seq<char>>) -> bool {
    token_ok(t, seg, n, true, langs) || token_ok(t, seg, n, false, langs)
}
pub proof fn lemma_tokenization_push(toks: Seq<MarkdownToken>, cuts: Seq<int>, ls: Seq<Seq<char>>, langs: Seq<Seq<char>>, t: MarkdownToken, c: int)
    requires tokenization(toks, cuts, ls, langs), cuts.last() < c <= ls.len(),
        token_ok_any(t, ls.subrange(cuts.last(), c), cuts.last(), langs),
    ensures tokenization(toks.push(t), cuts.push(c), ls, langs),
{
    let t2 = toks.push(t); let c2 = cuts.push(c);
    assert forall|i: int| 0 <= i < t2.len() implies 0 <= #[trigger] c2[i] < c2[i + 1] <= ls.len()
            && token_ok_any(t2[i], ls.subrange(c2[i], c2[i + 1]), c2[i], langs) by {
        if i < toks.len() {
            assert(c2[i] == cuts[i] && c2[i + 1] == cuts[i + 1] && t2[i] == toks[i]);
        } else {
            assert(c2[i] == cuts.last() && c2[i + 1] == c && t2[i] == t);
            if toks.len() > 0 { assert(0 <= cuts[toks.len() - 1]); }
        }
    }
}
/// md_fold only looks at the first k tokens
pub proof fn lemma_md_fold_prefix(toks: Seq<MarkdownToken>, t: MarkdownToken, k: int)
    requires 0 <= k <= toks.len(),
    ensures md_fold(toks.push(t), k) == md_fold(toks, k),
    decreases k
{
    if k > 0 { lemma_md_fold_prefix(toks, t, k - 1); assert(toks.push(t)[k - 1] == toks[k - 1]); }
}
pub proof fn lemma_md_body_error(s: LpS, code: Seq<(usize, String)>, k: int, n: int)
    requires 0 <= k <= n,
    ensures md_body(s, code, k) is None ==> md_body(s, code, n) is None,
    decreases n - k
{
    if k < n { lemma_md_body_error(s, code, k, n - 1); }
}
pub proof fn lemma_eq_nocfg(a: LpS, b: LpS)
    requires lps_eq(a, b), ensures lps_eq_nocfg(a, b)
{
    assert forall|i: int| 0 <= i < a.done.len() implies tcv_same_nocfg(#[trigger] a.done[i], b.done[i]) by { assert(tcv_same(a.done[i], b.done[i])); }
}
pub proof fn lemma_nocfg_trans(a: LpS, b: LpS, c: LpS)
    requires lps_eq_nocfg(a, b), lps_eq_nocfg(b, c), ensures lps_eq_nocfg(a, c)
{
    assert forall|i: int| 0 <= i < a.done.len() implies tcv_same_nocfg(#[trigger] a.done[i], c.done[i]) by {
        assert(tcv_same_nocfg(a.done[i], b.done[i])); assert(tcv_same_nocfg(b.done[i], c.done[i])); }
}
/// the end of a test case does not look at the configuration (it only stores it in the test case)
pub proof fn lemma_s_end_nocfg(a: LpS, b: LpS, n: int)
    requires lps_eq_nocfg(a, b),
    ensures (s_end(a, n) is None) == (s_end(b, n) is None), s_end(a, n) is Some ==> lps_eq_nocfg(s_end(a, n)->0, s_end(b, n)->0),
{
    if a.cmd.len() > 0 {
        let da = a.done.push(s_testcase(a, n)); let db = b.done.push(s_testcase(b, n));
        assert(tcv_same_nocfg(s_testcase(a, n), s_testcase(b, n)));
        assert forall|i: int| 0 <= i < da.len() implies tcv_same_nocfg(#[trigger] da[i], db[i]) by {
            if i < a.done.len() { assert(tcv_same_nocfg(a.done[i], b.done[i])); } }
        assert(tcvs_same_nocfg(da, db));
    }
}
/// neither does a body line
pub proof fn lemma_s_body_nocfg(a: LpS, b: LpS, line: Seq<char>, n: int)
    requires lps_eq_nocfg(a, b),
    ensures (s_body(a, line, n) is None) == (s_body(b, line, n) is None), s_body(a, line, n) is Some ==> lps_eq_nocfg(s_body(a, line, n)->0, s_body(b, line, n)->0),
{
    if (a.multi || a.cmd.len() == 0) && is_prefix_of(dollar(), line) {
        if a.cmd.len() > 0 { lemma_s_end_nocfg(LpS { in_cmd: true, ..a }, LpS { in_cmd: true, ..b }, n); }
    }
}
pub proof fn lemma_tokenization_init(ls: Seq<Seq<char>>, langs: Seq<Seq<char>>)
    ensures tokenization(Seq::empty(), seq![0int], ls, langs) {}
pub open spec fn code_lines_of(t: MarkdownToken) -> Seq<(usize, String)> {
    match t { MarkdownToken::TestCodeBlock { language, config_lines, comment_lines, code_lines } => code_lines@, _ => Seq::empty() }
}
/// what the parser needs of a token: it stands for at least one line, and its code lines carry line numbers of the segment
pub proof fn lemma_token_facts(t: MarkdownToken, seg: Seq<Seq<char>>, n: int, cs: bool, langs: Seq<Seq<char>>)
    requires token_ok(t, seg, n, cs, langs),
    ensures seg.len() >= 1, forall|j: int| 0 <= j < code_lines_of(t).len() ==> n <= (#[trigger] code_lines_of(t)[j]).0 < n + seg.len(),
{}
pub proof fn lemma_title_nocfg(a: LpS, b: LpS, t: Option<Seq<char>>)
    requires lps_eq_nocfg(a, b), ensures lps_eq_nocfg(LpS { title: t, ..a }, LpS { title: t, ..b }) {}
// ------------------------------------------------------------------ what the statement of C06 says about md_fold
pub open spec fn is_cmd(l: Seq<char>) -> bool { is_prefix_of(dollar(), l) }
/// the first `$ ` line among the first k code lines of a block
pub open spec fn first_cmd(code: Seq<(usize, String)>, k: int) -> Option<int> decreases k {
    if k <= 0 { None } else { match first_cmd(code, k - 1) { Some(j) => Some(j), None => if is_cmd(code[k - 1].1@) { Some(k - 1) } else { None } } }
}
/// between two tokens nothing is pending in the LineParser
pub open spec fn md_idle(s: LpS) -> bool { s.cmd.len() == 0 && s.exps.len() == 0 && s.start is None && !s.multi }
pub proof fn lemma_first_cmd(code: Seq<(usize, String)>, k: int)
    requires 0 <= k <= code.len(),
    ensures match first_cmd(code, k) {
        Some(j) => 0 <= j < k && is_cmd(code[j].1@) && forall|i: int| 0 <= i < j ==> !is_cmd(#[trigger] code[i].1@),
        None => forall|i: int| 0 <= i < k ==> !is_cmd(#[trigger] code[i].1@) },
    decreases k
{
    if k > 0 { lemma_first_cmd(code, k - 1); }
}
/// inside one block: no test case is finished, and the command collected is the one started by the first `$ ` line
pub proof fn lemma_md_body_shape(s: LpS, code: Seq<(usize, String)>, k: int)
    requires md_idle(s), 0 <= k <= code.len(), md_body(s, code, k) is Some,
    ensures ({ let sk = md_body(s, code, k)->0;
        sk.done == s.done && !sk.multi && sk.title == s.title && match first_cmd(code, k) {
            None => sk.cmd.len() == 0 && sk.start is None,
            Some(j) => sk.cmd.len() > 0 && sk.start == Some(code[j].0) && sk.cmd[0] == code[j].1@.skip(2) } }),
    decreases k
{
    if k > 0 {
        lemma_md_body_shape(s, code, k - 1);
    }
}
pub open spec fn tok_has_cmd(t: MarkdownToken) -> bool { t is TestCodeBlock && first_cmd(code_lines_of(t), code_lines_of(t).len() as int) is Some }
pub open spec fn test_count(toks: Seq<MarkdownToken>, k: int) -> int decreases k {
    if k <= 0 { 0 } else { test_count(toks, k - 1) + (if tok_has_cmd(toks[k - 1]) { 1int } else { 0int }) }
}
/// "exactly one test case per scrut block that contains a `$` command, in document order, with the 1-based number of the `$` line":
/// every token leaves the earlier test cases alone; a scrut block with a `$ ` line appends exactly one test case, whose line is the
/// number recorded for the first `$ ` line plus one, whose command starts with that line (minus the marker) and whose title is the
/// title pending at the block; every other token appends none.
pub proof fn lemma_md_doc(toks: Seq<MarkdownToken>, k: int)
    requires 0 <= k <= toks.len(), md_fold(toks, k) is Some,
    ensures md_idle(md_fold(toks, k)->0.lp), md_fold(toks, k)->0.lp.done.len() == test_count(toks, k),
        k > 0 ==> md_fold(toks, k - 1) is Some && ({
            let p = md_fold(toks, k - 1)->0.lp; let d = md_fold(toks, k)->0.lp.done;
            if tok_has_cmd(toks[k - 1]) {
                let code = code_lines_of(toks[k - 1]); let j = first_cmd(code, code.len() as int)->0;
                d.len() == p.done.len() + 1 && d.drop_last() =~= p.done && d.last().line == code[j].0 + 1
                && d.last().title == (match p.title { Some(t) => t, None => Seq::empty() })
                && exists|cmd: Seq<Seq<char>>| cmd.len() > 0 && cmd[0] == code[j].1@.skip(2) && d.last().expr == join_nl(cmd)
            } else { d =~= p.done } }),
    decreases k
{
    if k > 0 {
        lemma_md_doc(toks, k - 1);
        let sp = md_fold(toks, k - 1)->0;
        match toks[k - 1] {
            MarkdownToken::TestCodeBlock { language, config_lines, comment_lines, code_lines } => {
                let code = code_lines@;
                lemma_md_body_shape(sp.lp, code, code.len() as int);
                let l1 = md_body(sp.lp, code, code.len() as int)->0;
                if l1.cmd.len() > 0 { assert(l1.cmd[0] == code[first_cmd(code, code.len() as int)->0].1@.skip(2) && s_testcase(l1, last_number(code)).expr == join_nl(l1.cmd)); }
            }
            _ => {}
        }
    }
}
/// the number recorded for a code line is the 0-based document index of that very line (so `line` above is its 1-based number)
pub proof fn lemma_code_line_numbers(t: MarkdownToken, seg: Seq<Seq<char>>, n: int, cs: bool, langs: Seq<Seq<char>>, j: int)
    requires token_ok(t, seg, n, cs, langs), t is TestCodeBlock, 0 <= j < code_lines_of(t).len(),
    ensures ({ let c = t->comment_lines@.len() as int; code_lines_of(t)[j].0 == n + 1 + c + j && code_lines_of(t)[j].1@ == seg[1 + c + j] && 1 + c + j < seg.len() - 1 }),
{}
/// the tokens cover the whole document, or what is left is a front matter / fence that is never closed
pub open spec fn covers_or_unterminated(cuts: Seq<int>, ls: Seq<Seq<char>>) -> bool {
    cuts.last() == ls.len() || unterminated(ls.skip(cuts.last()), true) || unterminated(ls.skip(cuts.last()), false)
}
