// ---- render_lang.rs: byte offsets of a prefix (C19, partial)
/// a prefix of a string ends at a char boundary of the string, and is not longer in bytes
pub proof fn lemma_prefix_boundary(p: Seq<char>, s: Seq<char>)
    requires is_prefix_of(p, s),
    ensures boundary(s, blen(p)), blen(p) <= blen(s),
{
    assert(s.take(p.len() as int) =~= p);
    assert(s =~= p + s.skip(p.len() as int));
    encode_utf8_concat(p, s.skip(p.len() as int));
}
pub proof fn lemma_boundary_zero(s: Seq<char>) ensures boundary(s, 0) {
    assert(s.take(0) =~= Seq::<char>::empty());
    assert(encode_utf8(Seq::<char>::empty()).len() == 0) by { encode_utf8_concat(Seq::<char>::empty(), Seq::<char>::empty()); assert(Seq::<char>::empty() + Seq::<char>::empty() =~= Seq::<char>::empty()); }
    assert(blen(s.take(0)) == 0);
}
pub proof fn lemma_boundary_full(s: Seq<char>) ensures boundary(s, blen(s)) { assert(s.take(s.len() as int) =~= s); }
