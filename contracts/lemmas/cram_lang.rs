// ---- cram_lang.rs: the Cram-style body grammar (LineParser) and the Cram document format (C07)
pub uninterp spec fn exit_code_of(line: Seq<char>) -> Option<i32>;

// ------------------------------------------------------------------ abstract state of the line-by-line body parser
pub struct Tcv {
    pub title: Seq<char>, pub expr: Seq<char>, pub exps: Seq<Expectation>, pub exit: Option<i32>, pub line: int, pub config: TestCaseConfig,
}
pub struct LpS {
    pub title: Option<Seq<char>>, pub cmd: Seq<Seq<char>>, pub exit: Option<i32>, pub exps: Seq<Expectation>, pub in_cmd: bool,
    pub multi: bool, pub start: Option<usize>, pub config: Option<TestCaseConfig>, pub done: Seq<Tcv>,
}
pub open spec fn tc_view(t: TestCase) -> Tcv {
    Tcv { title: t.title@, expr: t.shell_expression@, exps: t.expectations@, exit: t.exit_code, line: t.line_number as int, config: t.config }
}
pub open spec fn tcs_view(v: Seq<TestCase>) -> Seq<Tcv> { Seq::new(v.len(), |i: int| tc_view(v[i])) }
pub open spec fn lpv(p: LineParser) -> LpS {
    LpS { title: match p.title { Some(t) => Some(t@), None => None }, cmd: strings_view(p.command@), exit: p.exit_code, exps: p.expectations@,
          in_cmd: p.in_command, multi: p.allow_multiple_commands, start: p.output_start_index, config: p.config, done: tcs_view(p.testcases@) }
}
pub open spec fn lps_eq(a: LpS, b: LpS) -> bool {
    a.title == b.title && a.cmd =~= b.cmd && a.exit == b.exit && a.exps =~= b.exps && a.in_cmd == b.in_cmd && a.multi == b.multi
    && a.start == b.start && a.config == b.config && a.done =~= b.done
}
pub open spec fn s_flush(s: LpS) -> LpS {
    LpS { title: None, cmd: Seq::empty(), exit: None, exps: Seq::empty(), start: None, config: None, ..s }
}
pub open spec fn s_has_body(s: LpS) -> bool { s.cmd.len() > 0 || s.exps.len() > 0 }
/// the test case that the collected state stands for (line numbers are 1-based: index of the first `$` line + 1)
pub open spec fn s_testcase(s: LpS, line_index: int) -> Tcv {
    Tcv { title: match s.title { Some(t) => t, None => Seq::empty() }, expr: join_nl(s.cmd), exps: s.exps, exit: s.exit,
          line: (match s.start { Some(i) => i as int, None => line_index }) + 1,
          config: match s.config { Some(c) => c, None => default_of::<TestCaseConfig>() } }
}
/// end of a test case: None = error
pub open spec fn s_end(s: LpS, line_index: int) -> Option<LpS> {
    if s.cmd.len() == 0 { if s.exps.len() > 0 { None } else { Some(s) } }
    else { Some(s_flush(LpS { done: s.done.push(s_testcase(s, line_index)), ..s })) }
}
pub open spec fn dollar() -> Seq<char> { seq!['$', ' '] }
pub open spec fn gt() -> Seq<char> { seq!['>', ' '] }
/// one line of a test body (`$ cmd`, `> continuation`, `[code]`, expectation): None = error
pub open spec fn s_body(s: LpS, line: Seq<char>, index: int) -> Option<LpS> {
    if (s.multi || s.cmd.len() == 0) && is_prefix_of(dollar(), line) {
        let s1 = if s.cmd.len() > 0 { s_end(LpS { in_cmd: true, ..s }, index) } else { Some(LpS { in_cmd: true, ..s }) };
        match s1 {
            None => None,
            Some(s1) => Some(LpS { start: if s1.start is None { Some(index as usize) } else { s1.start }, cmd: s1.cmd.push(line.skip(2)), ..s1 }),
        }
    } else if s.in_cmd && is_prefix_of(gt(), line) {
        if s.cmd.len() == 0 { None } else { Some(LpS { cmd: s.cmd.push(line.skip(2)), ..s }) }
    } else {
        let s0 = LpS { in_cmd: false, ..s };
        match exit_code_of(line) {
            Some(c) => if s0.exit is Some { None } else { Some(LpS { exit: Some(c), ..s0 }) },
            None => if exp_ok(line) { Some(LpS { exps: s0.exps.push(exp_of(line)), ..s0 }) } else { None },
        }
    }
}
pub proof fn lemma_strings_view_push(v: Seq<String>, x: String)
    ensures strings_view(v.push(x)) =~= strings_view(v).push(x@) {}
pub proof fn lemma_tcs_view_push(v: Seq<TestCase>, x: TestCase)
    ensures tcs_view(v.push(x)) =~= tcs_view(v).push(tc_view(x)) {}
pub proof fn lemma_markers()
    ensures forall|l: Seq<char>| #![trigger is_prefix_of(dollar(), l)] is_prefix_of(dollar(), l) ==> l.subrange(2, l.len() as int) =~= l.skip(2),
            forall|l: Seq<char>| #![trigger is_prefix_of(gt(), l)] is_prefix_of(gt(), l) ==> l.subrange(2, l.len() as int) =~= l.skip(2),
{}
