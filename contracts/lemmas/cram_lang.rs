// ---- cram_lang.rs: the Cram-style body grammar (LineParser) and the Cram document format (C07)
pub uninterp spec fn exit_code_of(line: Seq<char>) -> Option<i32>;

// ------------------------------------------------------------------ abstract state of the line-by-line body parser
pub struct Tcv {
    pub title: Seq<char>, pub expr: Seq<char>, pub exps: Seq<Expectation>, pub exit: Option<i32>, pub line: int, pub config: TestCaseConfig,
}
pub struct LpS {
    pub title: Option<Seq<char>>, pub cmd: Seq<Seq<char>>, pub exit: Option<i32>, pub exps: Seq<Expectation>, pub in_cmd: bool,
    pub multi: bool, pub start: Option<usize>, pub config: Option<TestCaseConfig>, pub done: Seq<Tcv>,
}
pub open spec fn tc_view(t: TestCase) -> Tcv {
    Tcv { title: t.title@, expr: t.shell_expression@, exps: t.expectations@, exit: t.exit_code, line: t.line_number as int, config: t.config }
}
pub open spec fn tcs_view(v: Seq<TestCase>) -> Seq<Tcv> { Seq::new(v.len(), |i: int| tc_view(v[i])) }
pub open spec fn lpv(p: LineParser) -> LpS {
    LpS { title: match p.title { Some(t) => Some(t@), None => None }, cmd: strings_view(p.command@), exit: p.exit_code, exps: p.expectations@,
          in_cmd: p.in_command, multi: p.allow_multiple_commands, start: p.output_start_index, config: p.config, done: tcs_view(p.testcases@) }
}
/// configurations are compared by content (the environment map by its view)
pub open spec fn cfg_same(a: TestCaseConfig, b: TestCaseConfig) -> bool {
    a.detached == b.detached && a.environment@ =~= b.environment@ && a.keep_crlf == b.keep_crlf && a.output_stream == b.output_stream
    && a.skip_document_code == b.skip_document_code && a.strip_ansi_escaping == b.strip_ansi_escaping && a.timeout == b.timeout && a.wait == b.wait
}
pub open spec fn opt_cfg_same(a: Option<TestCaseConfig>, b: Option<TestCaseConfig>) -> bool {
    match (a, b) { (Some(x), Some(y)) => cfg_same(x, y), (None, None) => true, _ => false }
}
pub open spec fn tcv_same(a: Tcv, b: Tcv) -> bool {
    a.title == b.title && a.expr == b.expr && a.exps =~= b.exps && a.exit == b.exit && a.line == b.line && cfg_same(a.config, b.config)
}
pub open spec fn tcvs_same(a: Seq<Tcv>, b: Seq<Tcv>) -> bool {
    a.len() == b.len() && forall|i: int| 0 <= i < a.len() ==> tcv_same(#[trigger] a[i], b[i])
}
pub open spec fn lps_eq(a: LpS, b: LpS) -> bool {
    a.title == b.title && a.cmd =~= b.cmd && a.exit == b.exit && a.exps =~= b.exps && a.in_cmd == b.in_cmd && a.multi == b.multi
    && a.start == b.start && opt_cfg_same(a.config, b.config) && tcvs_same(a.done, b.done)
}
pub open spec fn s_flush(s: LpS) -> LpS {
    LpS { title: None, cmd: Seq::empty(), exit: None, exps: Seq::empty(), start: None, config: None, ..s }
}
pub open spec fn s_has_body(s: LpS) -> bool { s.cmd.len() > 0 || s.exps.len() > 0 }
/// the test case that the collected state stands for (line numbers are 1-based: index of the first `$` line + 1)
pub open spec fn s_testcase(s: LpS, line_index: int) -> Tcv {
    Tcv { title: match s.title { Some(t) => t, None => Seq::empty() }, expr: join_nl(s.cmd), exps: s.exps, exit: s.exit,
          line: (match s.start { Some(i) => i as int, None => line_index }) + 1,
          config: match s.config { Some(c) => c, None => default_of::<TestCaseConfig>() } }
}
/// end of a test case: None = error
pub open spec fn s_end(s: LpS, line_index: int) -> Option<LpS> {
    // nothing collected: nothing to end; expectation lines or an exit code WITHOUT a command belong to no test case: an error
    if s.cmd.len() == 0 { if s.exps.len() > 0 || s.exit is Some { None } else { Some(s) } }
    else { Some(s_flush(LpS { done: s.done.push(s_testcase(s, line_index)), ..s })) }
}
pub open spec fn dollar() -> Seq<char> { seq!['$', ' '] }
pub open spec fn gt() -> Seq<char> { seq!['>', ' '] }
/// one line of a test body (`$ cmd`, `> continuation`, `[code]`, expectation): None = error
pub open spec fn s_body(s: LpS, line: Seq<char>, index: int) -> Option<LpS> {
    if (s.multi || s.cmd.len() == 0) && is_prefix_of(dollar(), line) {
        // a `$ ` line ends whatever has been collected: the previous test case -- or, when no command is open, lines that follow no command (error)
        let s1 = s_end(LpS { in_cmd: true, ..s }, index);
        match s1 {
            None => None,
            Some(s1) => Some(LpS { start: if s1.start is None { Some(index as usize) } else { s1.start }, cmd: s1.cmd.push(line.skip(2)), ..s1 }),
        }
    } else if s.in_cmd && is_prefix_of(gt(), line) {
        if s.cmd.len() == 0 { None } else { Some(LpS { cmd: s.cmd.push(line.skip(2)), ..s }) }
    } else {
        let s0 = LpS { in_cmd: false, ..s };
        match exit_code_of(line) {
            Some(c) => if s0.exit is Some { None } else { Some(LpS { exit: Some(c), ..s0 }) },
            None => if exp_ok(line) { Some(LpS { exps: s0.exps.push(exp_of(line)), ..s0 }) } else { None },
        }
    }
}
pub proof fn lemma_strings_view_push(v: Seq<String>, x: String)
    ensures strings_view(v.push(x)) =~= strings_view(v).push(x@) {}
pub proof fn lemma_tcs_view_push(v: Seq<TestCase>, x: TestCase)
    ensures tcs_view(v.push(x)) =~= tcs_view(v).push(tc_view(x)) {}
pub proof fn lemma_markers()
    ensures forall|l: Seq<char>| #![trigger is_prefix_of(dollar(), l)] is_prefix_of(dollar(), l) ==> l.subrange(2, l.len() as int) =~= l.skip(2),
            forall|l: Seq<char>| #![trigger is_prefix_of(gt(), l)] is_prefix_of(gt(), l) ==> l.subrange(2, l.len() as int) =~= l.skip(2),
{}

// ------------------------------------------------------------------ the Cram document format (C07), line by line
pub open spec fn hash_comment(l: Seq<char>) -> bool { l.len() > 0 && l[0] == '#' }
pub open spec fn lp_init(multi: bool) -> LpS {
    LpS { title: None, cmd: Seq::empty(), exit: None, exps: Seq::empty(), in_cmd: false, multi, start: None, config: None, done: Seq::empty() }
}
/// what one line of a `.t` document means: `#…` is a comment; an empty line ends the test case; a line indented by `indent`
/// belongs to a test body (and the test gets the Cram defaults); any other line ends the test case and is the title for the next
pub open spec fn cram_step(s: LpS, line: Seq<char>, index: int, indent: Seq<char>, cram_cfg: TestCaseConfig) -> Option<LpS> {
    if hash_comment(line) { Some(s) }
    else if line.len() == 0 { if s_has_body(s) { s_end(s, index) } else { Some(s) } }
    else if is_prefix_of(indent, line) {
        match s_body(s, line.subrange(indent.len() as int, line.len() as int), index) {
            None => None, Some(s1) => Some(LpS { config: Some(cram_cfg), ..s1 }) }
    } else {
        match s_end(s, index) { None => None, Some(s1) => Some(LpS { title: Some(line), ..s1 }) }
    }
}
/// the first k lines
pub open spec fn cram_fold(ls: Seq<Seq<char>>, k: int, indent: Seq<char>, cram_cfg: TestCaseConfig) -> Option<LpS> decreases k {
    if k <= 0 { Some(lp_init(true)) }
    else { match cram_fold(ls, k - 1, indent, cram_cfg) { None => None, Some(s) => cram_step(s, ls[k - 1], k - 1, indent, cram_cfg) } }
}
/// the whole document: the test cases, or None (= error)
pub open spec fn cram_doc(ls: Seq<Seq<char>>, indent: Seq<char>, cram_cfg: TestCaseConfig) -> Option<Seq<Tcv>> {
    match cram_fold(ls, ls.len() as int, indent, cram_cfg) {
        None => None,
        Some(s) => if s_has_body(s) { match s_end(LpS { config: Some(cram_cfg), ..s }, ls.len() as int) { None => None, Some(s1) => Some(s1.done) } } else { Some(s.done) },
    }
}
/// an error in a prefix is an error of the document
pub proof fn lemma_fold_error(ls: Seq<Seq<char>>, k: int, n: int, indent: Seq<char>, c: TestCaseConfig)
    requires 0 <= k <= n, cram_fold(ls, k, indent, c) is None,
    ensures cram_fold(ls, n, indent, c) is None,
    decreases n - k
{
    if k < n { lemma_fold_error(ls, k, n - 1, indent, c); }
}
pub open spec fn cram_config_ok(c: TestCaseConfig) -> bool {
    c.output_stream == Some(OutputStreamControl::Combined) && c.keep_crlf == Some(true) && c.skip_document_code == Some(80i32)
    && c.detached is None && c.environment@.dom() =~= Set::<String>::empty() && c.strip_ansi_escaping is None && c.timeout is None && c.wait is None
}
pub open spec fn spaces(n: nat) -> Seq<char> { Seq::new(n, |i: int| ' ') }
/// the Cram defaults, key by key: combined output, CRLF kept, skip code 80, everything else unset
pub proof fn lemma_fold_error_from(ls: Seq<Seq<char>>, k: int, indent: Seq<char>, c: TestCaseConfig)
    requires 0 <= k <= ls.len(),
    ensures cram_fold(ls, k, indent, c) is None ==> cram_fold(ls, ls.len() as int, indent, c) is None,
{
    if cram_fold(ls, k, indent, c) is None { lemma_fold_error(ls, k, ls.len() as int, indent, c); }
}

// ------------------------------------------------------------------ what the statement of C07 says about `cram_doc`
/// an indented `$ ` line that is not a comment: "one test case per two-space-indented `$` command"
pub open spec fn is_cmd_line(l: Seq<char>, indent: Seq<char>) -> bool {
    !hash_comment(l) && l.len() > 0 && is_prefix_of(indent, l) && is_prefix_of(dollar(), l.subrange(indent.len() as int, l.len() as int))
}
pub open spec fn cmd_count(ls: Seq<Seq<char>>, k: int, indent: Seq<char>) -> int decreases k {
    if k <= 0 { 0 } else { cmd_count(ls, k - 1, indent) + (if is_cmd_line(ls[k - 1], indent) { 1int } else { 0int }) }
}
/// a title line: not a comment, not empty, not indented
pub open spec fn is_title_line(l: Seq<char>, indent: Seq<char>) -> bool { !hash_comment(l) && l.len() > 0 && !is_prefix_of(indent, l) }
/// the nearest title line before position k (None: there is none)
pub open spec fn nearest_title(ls: Seq<Seq<char>>, k: int, indent: Seq<char>) -> Option<Seq<char>> decreases k {
    if k <= 0 { None } else if is_title_line(ls[k - 1], indent) { Some(ls[k - 1]) } else { nearest_title(ls, k - 1, indent) }
}
/// state invariant of the fold, in the statement's terms: as many test cases (finished + the one being collected) as command
/// lines so far; every finished one has the Cram defaults, a 1-based line number of an earlier command line, in increasing order
pub open spec fn cram_wf(s: LpS, ls: Seq<Seq<char>>, k: int, indent: Seq<char>) -> bool {
    &&& s.multi
    &&& s.done.len() + (if s.cmd.len() > 0 { 1int } else { 0int }) == cmd_count(ls, k, indent)
    &&& forall|j: int| 0 <= j < s.done.len() ==> cram_config_ok((#[trigger] s.done[j]).config) && 1 <= s.done[j].line <= k
            && is_cmd_line(ls[s.done[j].line - 1], indent)
    &&& forall|i: int, j: int| 0 <= i < j < s.done.len() ==> (#[trigger] s.done[i]).line < (#[trigger] s.done[j]).line
    &&& s.cmd.len() > 0 ==> s.start is Some && s.start->0 < k && is_cmd_line(ls[s.start->0 as int], indent)
            && (s.config is Some && cram_config_ok(s.config->0))
            && forall|j: int| 0 <= j < s.done.len() ==> (#[trigger] s.done[j]).line <= s.start->0
    &&& s.cmd.len() == 0 ==> s.start is None
}
proof fn lemma_end_wf(s: LpS, ls: Seq<Seq<char>>, k: int, indent: Seq<char>, idx: int)
    requires cram_wf(s, ls, k, indent), s_end(s, idx) is Some,
    ensures ({ let t = s_end(s, idx)->0; t.multi && t.cmd.len() == 0 && t.start is None
        && t.done.len() == s.done.len() + (if s.cmd.len() > 0 { 1int } else { 0int })
        && (forall|j: int| 0 <= j < t.done.len() ==> cram_config_ok((#[trigger] t.done[j]).config) && 1 <= t.done[j].line <= k && is_cmd_line(ls[t.done[j].line - 1], indent))
        && (forall|i: int, j: int| 0 <= i < j < t.done.len() ==> (#[trigger] t.done[i]).line < (#[trigger] t.done[j]).line) }),
{
    let t = s_end(s, idx)->0;
    if s.cmd.len() > 0 {
        let tc = s_testcase(s, idx);
        assert(t.done =~= s.done.push(tc));
        assert(tc.line == s.start->0 + 1);
        assert forall|j: int| 0 <= j < t.done.len() implies cram_config_ok((#[trigger] t.done[j]).config) && 1 <= t.done[j].line <= k && is_cmd_line(ls[t.done[j].line - 1], indent) by {
            if j < s.done.len() { assert(t.done[j] == s.done[j]); }
        }
        assert forall|i: int, j: int| 0 <= i < j < t.done.len() implies (#[trigger] t.done[i]).line < (#[trigger] t.done[j]).line by {
            assert(t.done[i] == s.done[i]);
            if j < s.done.len() { assert(t.done[j] == s.done[j]); }
        }
    }
}
/// the invariant is preserved by every line (the statement-level reading of the format follows from the line semantics)
pub proof fn lemma_cram_wf(ls: Seq<Seq<char>>, k: int, indent: Seq<char>, c: TestCaseConfig)
    requires 0 <= k <= ls.len(), ls.len() <= usize::MAX, cram_config_ok(c), cram_fold(ls, k, indent, c) is Some,
    ensures cram_wf(cram_fold(ls, k, indent, c)->0, ls, k, indent),
    decreases k
{
    if k > 0 {
        assert(cram_fold(ls, k - 1, indent, c) is Some);
        let s = cram_fold(ls, k - 1, indent, c)->0;
        lemma_cram_wf(ls, k - 1, indent, c);
        let l = ls[k - 1];
        assert(cram_fold(ls, k, indent, c) == cram_step(s, l, k - 1, indent, c));
        let t = cram_step(s, l, k - 1, indent, c)->0;
        assert(cmd_count(ls, k, indent) == cmd_count(ls, k - 1, indent) + (if is_cmd_line(l, indent) { 1int } else { 0int }));
        if hash_comment(l) {
            assert(t == s); assert(!is_cmd_line(l, indent));
            assert(cram_wf(t, ls, k, indent));
        } else if l.len() == 0 {
            assert(!is_cmd_line(l, indent));
            if s_has_body(s) { lemma_end_wf(s, ls, k - 1, indent, k - 1); assert(cram_wf(t, ls, k, indent)); }
            else { assert(t == s); assert(cram_wf(t, ls, k, indent)); }
        } else if is_prefix_of(indent, l) {
            let b = l.subrange(indent.len() as int, l.len() as int);
            let u = s_body(s, b, k - 1)->0;
            assert(t == LpS { config: Some(c), ..u });
            if (s.multi || s.cmd.len() == 0) && is_prefix_of(dollar(), b) {
                assert(is_cmd_line(l, indent));
                let s0 = LpS { in_cmd: true, ..s };
                assert(cram_wf(s0, ls, k - 1, indent));
                if s.cmd.len() > 0 {
                    lemma_end_wf(s0, ls, k - 1, indent, k - 1);
                    let s1 = s_end(s0, k - 1)->0;
                    assert(u.done == s1.done);
                    assert(u.cmd.len() == 1);
                    assert(u.start == Some((k - 1) as usize));
                } else {
                    assert(u.done == s.done);
                    assert(u.start == Some((k - 1) as usize));
                }
                assert(cram_wf(t, ls, k, indent));
            } else {
                assert(!is_cmd_line(l, indent));
                assert(s.multi);
                assert(!is_prefix_of(dollar(), b));
                assert(u.done == s.done);
                assert(u.start == s.start);
                assert((u.cmd.len() > 0) == (s.cmd.len() > 0));
                assert(cram_wf(t, ls, k, indent));
            }
        } else {
            assert(!is_cmd_line(l, indent));
            lemma_end_wf(s, ls, k - 1, indent, k - 1);
            assert(cram_wf(t, ls, k, indent));
        }
    }
}
/// C07, statement level: an accepted document yields exactly one test case per command line, in document order, each
/// with the Cram defaults and the 1-based number of its `$` line
pub proof fn lemma_cram_doc(ls: Seq<Seq<char>>, indent: Seq<char>, c: TestCaseConfig)
    requires cram_config_ok(c), ls.len() <= usize::MAX, cram_doc(ls, indent, c) is Some,
    ensures ({ let d = cram_doc(ls, indent, c)->0;
        d.len() == cmd_count(ls, ls.len() as int, indent)
        && (forall|j: int| 0 <= j < d.len() ==> cram_config_ok((#[trigger] d[j]).config) && 1 <= d[j].line <= ls.len() && is_cmd_line(ls[d[j].line - 1], indent))
        && (forall|i: int, j: int| 0 <= i < j < d.len() ==> (#[trigger] d[i]).line < (#[trigger] d[j]).line) }),
{
    let n = ls.len() as int;
    let s = cram_fold(ls, n, indent, c)->0;
    lemma_cram_wf(ls, n, indent, c);
    if s_has_body(s) {
        let s2 = LpS { config: Some(c), ..s };
        assert(cram_wf(s2, ls, n, indent));
        lemma_end_wf(s2, ls, n, indent, n);
    }
}

/// the title of the test whose `$` line is at position pos: the nearest preceding title line, "" if there is none
pub open spec fn title_ok(title: Seq<char>, ls: Seq<Seq<char>>, pos: int, indent: Seq<char>) -> bool {
    title == (match nearest_title(ls, pos, indent) { Some(t) => t, None => Seq::<char>::empty() })
}
