// ---- cram_lang.rs: the Cram-style body grammar (LineParser) and the Cram document format (C07)
pub uninterp spec fn exit_code_of(line: Seq<char>) -> Option<i32>;

// ------------------------------------------------------------------ abstract state of the line-by-line body parser
pub struct Tcv {
    pub title: Seq<char>, pub expr: Seq<char>, pub exps: Seq<Expectation>, pub exit: Option<i32>, pub line: int, pub config: TestCaseConfig,
}
pub struct LpS {
    pub title: Option<Seq<char>>, pub cmd: Seq<Seq<char>>, pub exit: Option<i32>, pub exps: Seq<Expectation>, pub in_cmd: bool,
    pub multi: bool, pub start: Option<usize>, pub config: Option<TestCaseConfig>, pub done: Seq<Tcv>,
}
pub open spec fn tc_view(t: TestCase) -> Tcv {
    Tcv { title: t.title@, expr: t.shell_expression@, exps: t.expectations@, exit: t.exit_code, line: t.line_number as int, config: t.config }
}
pub open spec fn tcs_view(v: Seq<TestCase>) -> Seq<Tcv> { Seq::new(v.len(), |i: int| tc_view(v[i])) }
pub open spec fn lpv(p: LineParser) -> LpS {
    LpS { title: match p.title { Some(t) => Some(t@), None => None }, cmd: strings_view(p.command@), exit: p.exit_code, exps: p.expectations@,
          in_cmd: p.in_command, multi: p.allow_multiple_commands, start: p.output_start_index, config: p.config, done: tcs_view(p.testcases@) }
}
/// configurations are compared by content (the environment map by its view)
pub open spec fn cfg_same(a: TestCaseConfig, b: TestCaseConfig) -> bool {
    a.detached == b.detached && a.environment@ =~= b.environment@ && a.keep_crlf == b.keep_crlf && a.output_stream == b.output_stream
    && a.skip_document_code == b.skip_document_code && a.strip_ansi_escaping == b.strip_ansi_escaping && a.timeout == b.timeout && a.wait == b.wait
}
pub open spec fn opt_cfg_same(a: Option<TestCaseConfig>, b: Option<TestCaseConfig>) -> bool {
    match (a, b) { (Some(x), Some(y)) => cfg_same(x, y), (None, None) => true, _ => false }
}
pub open spec fn tcv_same(a: Tcv, b: Tcv) -> bool {
    a.title == b.title && a.expr == b.expr && a.exps =~= b.exps && a.exit == b.exit && a.line == b.line && cfg_same(a.config, b.config)
}
pub open spec fn tcvs_same(a: Seq<Tcv>, b: Seq<Tcv>) -> bool {
    a.len() == b.len() && forall|i: int| 0 <= i < a.len() ==> tcv_same(#[trigger] a[i], b[i])
}
pub open spec fn lps_eq(a: LpS, b: LpS) -> bool {
    a.title == b.title && a.cmd =~= b.cmd && a.exit == b.exit && a.exps =~= b.exps && a.in_cmd == b.in_cmd && a.multi == b.multi
    && a.start == b.start && opt_cfg_same(a.config, b.config) && tcvs_same(a.done, b.done)
}
pub open spec fn s_flush(s: LpS) -> LpS {
    LpS { title: None, cmd: Seq::empty(), exit: None, exps: Seq::empty(), start: None, config: None, ..s }
}
pub open spec fn s_has_body(s: LpS) -> bool { s.cmd.len() > 0 || s.exps.len() > 0 }
/// the test case that the collected state stands for (line numbers are 1-based: index of the first `$` line + 1)
pub open spec fn s_testcase(s: LpS, line_index: int) -> Tcv {
    Tcv { title: match s.title { Some(t) => t, None => Seq::empty() }, expr: join_nl(s.cmd), exps: s.exps, exit: s.exit,
          line: (match s.start { Some(i) => i as int, None => line_index }) + 1,
          config: match s.config { Some(c) => c, None => default_of::<TestCaseConfig>() } }
}
/// end of a test case: None = error
pub open spec fn s_end(s: LpS, line_index: int) -> Option<LpS> {
    if s.cmd.len() == 0 { if s.exps.len() > 0 { None } else { Some(s) } }
    else { Some(s_flush(LpS { done: s.done.push(s_testcase(s, line_index)), ..s })) }
}
pub open spec fn dollar() -> Seq<char> { seq!['$', ' '] }
pub open spec fn gt() -> Seq<char> { seq!['>', ' '] }
/// one line of a test body (`$ cmd`, `> continuation`, `[code]`, expectation): None = error
pub open spec fn s_body(s: LpS, line: Seq<char>, index: int) -> Option<LpS> {
    if (s.multi || s.cmd.len() == 0) && is_prefix_of(dollar(), line) {
        let s1 = if s.cmd.len() > 0 { s_end(LpS { in_cmd: true, ..s }, index) } else { Some(LpS { in_cmd: true, ..s }) };
        match s1 {
            None => None,
            Some(s1) => Some(LpS { start: if s1.start is None { Some(index as usize) } else { s1.start }, cmd: s1.cmd.push(line.skip(2)), ..s1 }),
        }
    } else if s.in_cmd && is_prefix_of(gt(), line) {
        if s.cmd.len() == 0 { None } else { Some(LpS { cmd: s.cmd.push(line.skip(2)), ..s }) }
    } else {
        let s0 = LpS { in_cmd: false, ..s };
        match exit_code_of(line) {
            Some(c) => if s0.exit is Some { None } else { Some(LpS { exit: Some(c), ..s0 }) },
            None => if exp_ok(line) { Some(LpS { exps: s0.exps.push(exp_of(line)), ..s0 }) } else { None },
        }
    }
}
pub proof fn lemma_strings_view_push(v: Seq<String>, x: String)
    ensures strings_view(v.push(x)) =~= strings_view(v).push(x@) {}
pub proof fn lemma_tcs_view_push(v: Seq<TestCase>, x: TestCase)
    ensures tcs_view(v.push(x)) =~= tcs_view(v).push(tc_view(x)) {}
pub proof fn lemma_markers()
    ensures forall|l: Seq<char>| #![trigger is_prefix_of(dollar(), l)] is_prefix_of(dollar(), l) ==> l.subrange(2, l.len() as int) =~= l.skip(2),
            forall|l: Seq<char>| #![trigger is_prefix_of(gt(), l)] is_prefix_of(gt(), l) ==> l.subrange(2, l.len() as int) =~= l.skip(2),
{}

// ------------------------------------------------------------------ the Cram document format (C07), line by line
pub open spec fn hash_comment(l: Seq<char>) -> bool { l.len() > 0 && l[0] == '#' }
pub open spec fn lp_init(multi: bool) -> LpS {
    LpS { title: None, cmd: Seq::empty(), exit: None, exps: Seq::empty(), in_cmd: false, multi, start: None, config: None, done: Seq::empty() }
}
/// what one line of a `.t` document means: `#…` is a comment; an empty line ends the test case; a line indented by `indent`
/// belongs to a test body (and the test gets the Cram defaults); any other line ends the test case and is the title for the next
pub open spec fn cram_step(s: LpS, line: Seq<char>, index: int, indent: Seq<char>, cram_cfg: TestCaseConfig) -> Option<LpS> {
    if hash_comment(line) { Some(s) }
    else if line.len() == 0 { if s_has_body(s) { s_end(s, index) } else { Some(s) } }
    else if is_prefix_of(indent, line) {
        match s_body(s, line.subrange(indent.len() as int, line.len() as int), index) {
            None => None, Some(s1) => Some(LpS { config: Some(cram_cfg), ..s1 }) }
    } else {
        match s_end(s, index) { None => None, Some(s1) => Some(LpS { title: Some(line), ..s1 }) }
    }
}
/// the first k lines
pub open spec fn cram_fold(ls: Seq<Seq<char>>, k: int, indent: Seq<char>, cram_cfg: TestCaseConfig) -> Option<LpS> decreases k {
    if k <= 0 { Some(lp_init(true)) }
    else { match cram_fold(ls, k - 1, indent, cram_cfg) { None => None, Some(s) => cram_step(s, ls[k - 1], k - 1, indent, cram_cfg) } }
}
/// the whole document: the test cases, or None (= error)
pub open spec fn cram_doc(ls: Seq<Seq<char>>, indent: Seq<char>, cram_cfg: TestCaseConfig) -> Option<Seq<Tcv>> {
    match cram_fold(ls, ls.len() as int, indent, cram_cfg) {
        None => None,
        Some(s) => if s_has_body(s) { match s_end(LpS { config: Some(cram_cfg), ..s }, ls.len() as int) { None => None, Some(s1) => Some(s1.done) } } else { Some(s.done) },
    }
}
/// an error in a prefix is an error of the document
pub proof fn lemma_fold_error(ls: Seq<Seq<char>>, k: int, n: int, indent: Seq<char>, c: TestCaseConfig)
    requires 0 <= k <= n, cram_fold(ls, k, indent, c) is None,
    ensures cram_fold(ls, n, indent, c) is None,
    decreases n - k
{
    if k < n { lemma_fold_error(ls, k, n - 1, indent, c); }
}
pub open spec fn cram_config_ok(c: TestCaseConfig) -> bool {
    c.output_stream == Some(OutputStreamControl::Combined) && c.keep_crlf == Some(true) && c.skip_document_code == Some(80i32)
    && c.detached is None && c.environment@.dom() =~= Set::<String>::empty() && c.strip_ansi_escaping is None && c.timeout is None && c.wait is None
}
pub open spec fn spaces(n: nat) -> Seq<char> { Seq::new(n, |i: int| ' ') }
/// the Cram defaults, key by key: combined output, CRLF kept, skip code 80, everything else unset
pub proof fn lemma_fold_error_from(ls: Seq<Seq<char>>, k: int, indent: Seq<char>, c: TestCaseConfig)
    requires 0 <= k <= ls.len(),
    ensures cram_fold(ls, k, indent, c) is None ==> cram_fold(ls, ls.len() as int, indent, c) is None,
{
    if cram_fold(ls, k, indent, c) is None { lemma_fold_error(ls, k, ls.len() as int, indent, c); }
}
