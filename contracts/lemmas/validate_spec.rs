// ---- validate_spec.rs: vocabulary of C05
/// the expected exit code: the one written, 0 when none is written
pub open spec fn expected_code(t: TestCase) -> i32 { if t.exit_code is Some { t.exit_code->0 } else { 0i32 } }
/// the configured stream: stderr when output_stream == stderr, otherwise the captured stdout
/// (for `combined` the executor has already merged stderr into stdout)
pub open spec fn selected_stream(t: TestCase, o: Output) -> Seq<u8> {
    if t.config.output_stream == Some(OutputStreamControl::Stderr) { o.stderr.0@ } else { o.stdout.0@ }
}
pub open spec fn code_ok(t: TestCase, o: Output) -> bool {
    o.exit_code matches ExitStatus::Code(c) && c == expected_code(t)
}
