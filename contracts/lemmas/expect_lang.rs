// ---- expect_lang.rs: the expectation line grammar (C08):  <expression> [ <ws> ( <kind>? <quantifier>? ) ]
pub open spec fn quant_ok(q: Seq<char>) -> bool { q.len() == 0 || (q.len() == 1 && (q[0] == '*' || q[0] == '+' || q[0] == '?')) }
pub open spec fn plain_char(c: char) -> bool { c != '(' && c != ')' && c != '*' && c != '+' && c != '?' }
/// a word without parentheses and quantifier characters (every rule name must be one: reg_wf)
pub open spec fn plain_word(k: Seq<char>) -> bool { forall|i: int| 0 <= i < k.len() ==> plain_char(#[trigger] k[i]) }
pub open spec fn mod_line(e: Seq<char>, w: char, k: Seq<char>, q: Seq<char>) -> Seq<char> { e.push(w).push('(') + k + q + seq![')'] }
/// line = e <whitespace> ( k q )
pub open spec fn mod_split(line: Seq<char>, e: Seq<char>, k: Seq<char>, q: Seq<char>) -> bool {
    plain_word(k) && quant_ok(q) && exists|w: char| is_ws(w) && line == #[trigger] mod_line(e, w, k, q)
}
pub proof fn lemma_split_len(e: Seq<char>, w: char, k: Seq<char>, q: Seq<char>)
    requires plain_word(k), quant_ok(q),
    ensures ({ let l = mod_line(e, w, k, q);
        l.len() == e.len() + 3 + k.len() + q.len() && l[e.len() as int + 1] == '(' && l[e.len() as int] == w
        && (forall|i: int| 0 <= i < e.len() ==> l[i] == e[i])
        && (forall|i: int| 0 <= i < k.len() ==> l[e.len() + 2 + i] == k[i])
        && (forall|i: int| 0 <= i < q.len() ==> l[e.len() + 2 + k.len() + i] == q[i])
        && l.last() == ')'
        && (forall|i: int| e.len() + 1 < i < l.len() - 1 ==> l[i] != '(' && l[i] != ')') }),
{
    let l = mod_line(e, w, k, q);
    assert forall|i: int| e.len() + 1 < i < l.len() - 1 implies l[i] != '(' && l[i] != ')' by {
        if i < e.len() + 2 + k.len() { assert(l[i] == k[i - e.len() - 2]); assert(plain_char(k[i - e.len() - 2])); }
        else { assert(l[i] == q[i - e.len() - 2 - k.len()]); }
    }
}
/// the decomposition of a line into expression, kind and quantifier is unique (the regular expression has no choice):
/// the `(` of the modifier is the last `(` of the line, and a quantifier character cannot be part of the kind
pub proof fn lemma_mod_split_unique(line: Seq<char>, e1: Seq<char>, k1: Seq<char>, q1: Seq<char>, e2: Seq<char>, k2: Seq<char>, q2: Seq<char>)
    requires mod_split(line, e1, k1, q1), mod_split(line, e2, k2, q2),
    ensures e1 == e2 && k1 == k2 && q1 == q2,
{
    let w1 = choose|w: char| is_ws(w) && line == #[trigger] mod_line(e1, w, k1, q1);
    let w2 = choose|w: char| is_ws(w) && line == #[trigger] mod_line(e2, w, k2, q2);
    lemma_split_len(e1, w1, k1, q1); lemma_split_len(e2, w2, k2, q2);
    if e1.len() < e2.len() { assert(line[e2.len() as int + 1] == '('); assert(false); }
    if e2.len() < e1.len() { assert(line[e1.len() as int + 1] == '('); assert(false); }
    assert(e1 =~= e2);
    let n = e1.len() as int + 2;
    if k1.len() < k2.len() {
        assert(k1.len() + q1.len() == k2.len() + q2.len());
        assert(q1.len() == 1 && q2.len() == 0 && k2.len() == k1.len() + 1);
        assert(line[n + k1.len()] == q1[0]); assert(line[n + k1.len()] == k2[k1.len() as int]); assert(plain_char(k2[k1.len() as int]));
        assert(false);
    }
    if k2.len() < k1.len() {
        assert(k1.len() + q1.len() == k2.len() + q2.len());
        assert(q2.len() == 1 && q1.len() == 0 && k1.len() == k2.len() + 1);
        assert(line[n + k2.len()] == q2[0]); assert(line[n + k2.len()] == k1[k2.len() as int]); assert(plain_char(k1[k2.len() as int]));
        assert(false);
    }
    assert forall|i: int| 0 <= i < k1.len() implies k1[i] == k2[i] by { assert(line[n + i] == k1[i]); assert(line[n + i] == k2[i]); }
    assert(k1 =~= k2);
    if q1.len() == 1 { assert(line[n + k1.len()] == q1[0]); assert(line[n + k1.len()] == q2[0]); }
    assert(q1 =~= q2);
}
/// rule names are non-empty plain words
pub open spec fn reg_wf(r: OpaqueRegistry) -> bool { forall|k: Seq<char>| #[trigger] reg_is_kind(r, k) ==> plain_word(k) && k.len() > 0 }
pub open spec fn no_lf_chars(s: Seq<char>) -> bool { forall|i: int| 0 <= i < s.len() ==> s[i] != '\n' }
/// a final group whose kind is empty or a registered name
pub open spec fn mod_split_reg(r: OpaqueRegistry, line: Seq<char>, e: Seq<char>, k: Seq<char>, q: Seq<char>) -> bool {
    mod_split(line, e, k, q) && (k.len() == 0 || reg_is_kind(r, k))
}
/// "only a final ` (<kind><quantifier>)` group with a documented kind and/or quantifier is the modifier"
pub open spec fn proper_mod(r: OpaqueRegistry, line: Seq<char>, e: Seq<char>, k: Seq<char>, q: Seq<char>) -> bool {
    mod_split_reg(r, line, e, k, q) && (k.len() > 0 || q.len() > 0)
}
pub open spec fn has_proper_mod(r: OpaqueRegistry, line: Seq<char>) -> bool {
    exists|e: Seq<char>, k: Seq<char>, q: Seq<char>| #[trigger] proper_mod(r, line, e, k, q)
}
/// ASSUMED semantics of the regex crate for  ^(.*?)(?:\s\(({names}|)?([*+?])?\))?$  on a line without line feed: the list of
/// the groups that took part in the match is [line] when the line has no final group, else [e, k] or [e, k, q]
pub open spec fn caps_ok(r: OpaqueRegistry, line: Seq<char>, c: Seq<Seq<char>>) -> bool {
    ||| c.len() == 1 && c[0] == line && !(exists|e: Seq<char>, k: Seq<char>, q: Seq<char>| #[trigger] mod_split_reg(r, line, e, k, q))
    ||| c.len() == 2 && mod_split_reg(r, line, c[0], c[1], Seq::empty())
    ||| c.len() == 3 && c[2].len() == 1 && mod_split_reg(r, line, c[0], c[1], c[2])
}
#[verifier::external_body]
pub fn __expectation_captures<'a>(reg: &OpaqueRegistry, line: &'a str) -> (r: anyhow::Result<Vec<&'a str>>)
    requires no_lf_chars(line@), reg_wf(*reg),
    ensures r is Ok, caps_ok(*reg, line@, strs_view(r->Ok_0@)),
{ unimplemented!() }
pub open spec fn equal_word() -> Seq<char> { seq!['e', 'q', 'u', 'a', 'l'] }
/// what a line means: (expression, kind, quantifier)
pub open spec fn line_parts(r: OpaqueRegistry, line: Seq<char>) -> (Seq<char>, Seq<char>, Seq<char>) {
    if has_proper_mod(r, line) {
        let (e, k, q) = choose|e: Seq<char>, k: Seq<char>, q: Seq<char>| #[trigger] proper_mod(r, line, e, k, q);
        (e, if k.len() == 0 { equal_word() } else { k }, q)
    } else { (line, equal_word(), Seq::empty()) }
}
/// line_parts does not depend on the choice
pub proof fn lemma_line_parts(r: OpaqueRegistry, line: Seq<char>, e: Seq<char>, k: Seq<char>, q: Seq<char>)
    requires proper_mod(r, line, e, k, q),
    ensures line_parts(r, line) == (e, if k.len() == 0 { equal_word() } else { k }, q),
{
    let (e2, k2, q2) = choose|e: Seq<char>, k: Seq<char>, q: Seq<char>| #[trigger] proper_mod(r, line, e, k, q);
    lemma_mod_split_unique(line, e, k, q, e2, k2, q2);
}
pub open spec fn star() -> Seq<char> { seq!['*'] }
pub open spec fn plus() -> Seq<char> { seq!['+'] }
pub open spec fn qmark() -> Seq<char> { seq!['?'] }
/// a line whose only final group is `()` has no modifier
pub proof fn lemma_no_proper_mod(r: OpaqueRegistry, line: Seq<char>, e0: Seq<char>)
    requires mod_split_reg(r, line, e0, Seq::empty(), Seq::empty()),
    ensures !has_proper_mod(r, line),
{
    assert forall|e: Seq<char>, k: Seq<char>, q: Seq<char>| !#[trigger] proper_mod(r, line, e, k, q) by {
        if proper_mod(r, line, e, k, q) { lemma_mod_split_unique(line, e, k, q, e0, Seq::empty(), Seq::empty()); }
    }
}
// ---- rendering (Rule::to_expression_string)
pub open spec fn quant_of(optional: bool, multiline: bool) -> Seq<char> {
    if optional { if multiline { star() } else { qmark() } } else if multiline { plus() } else { Seq::empty() }
}
pub open spec fn escaped_word() -> Seq<char> { seq!['e', 's', 'c', 'a', 'p', 'e', 'd'] }
/// rendered <space> ( kind quantifier )
pub open spec fn with_mod(rendered: Seq<char>, k: Seq<char>, q: Seq<char>) -> Seq<char> { mod_line(rendered, ' ', k, q) }
/// the canonical form: an `equal` rule is written bare (with ` (q)` when quantified) -- unless it has unprintable characters (then
/// as `escaped`) or, unquantified, its own end would read as a modifier (then with an explicit ` (equal)`); every other kind is
/// written with its kind
pub open spec fn render_spec(kind: Seq<char>, rendered: Seq<char>, unprintable: bool, optional: bool, multiline: bool, mod_end: bool) -> Seq<char> {
    let q = quant_of(optional, multiline);
    if kind == equal_word() {
        if unprintable { with_mod(protect(rendered), escaped_word(), q) }
        else if q.len() == 0 { if mod_end { with_mod(rendered, equal_word(), q) } else { rendered } }
        else { with_mod(rendered, Seq::empty(), q) }
    } else if kind == escaped_word() { with_mod(protect(rendered), kind, q) }
    else { with_mod(rendered, kind, q) }
}
/// a line written as `rendered (kind quantifier)` with a registered kind and/or a quantifier reads back as exactly these parts
pub proof fn lemma_with_mod_parts(reg: OpaqueRegistry, rendered: Seq<char>, k: Seq<char>, q: Seq<char>)
    requires reg_wf(reg), quant_ok(q), k.len() == 0 || reg_is_kind(reg, k), k.len() > 0 || q.len() > 0,
    ensures line_parts(reg, with_mod(rendered, k, q)) == (rendered, if k.len() == 0 { equal_word() } else { k }, q),
{
    axiom_space_is_ws();
    let l = with_mod(rendered, k, q);
    assert(is_ws(' ') && l == mod_line(rendered, ' ', k, q));
    assert(mod_split(l, rendered, k, q));
    lemma_line_parts(reg, l, rendered, k, q);
}
/// the expression as it is written: an escaped rendering never ends in ` (no-eol)` (see `protect`)
pub open spec fn written_expr(kind: Seq<char>, rendered: Seq<char>, unprintable: bool) -> Seq<char> { if (kind == equal_word() && unprintable) || kind == escaped_word() { protect(rendered) } else { rendered } }
/// the kind under which a rule is written
pub open spec fn written_kind(kind: Seq<char>, unprintable: bool) -> Seq<char> { if kind == equal_word() && unprintable { escaped_word() } else { kind } }
pub open spec fn is_bare(kind: Seq<char>, unprintable: bool, optional: bool, multiline: bool) -> bool {
    kind == equal_word() && !unprintable && !optional && !multiline
}
/// what the registry must know for a rendering to be readable: the rule's own kind and `escaped`
pub open spec fn reg_knows(reg: OpaqueRegistry, kind: Seq<char>) -> bool { reg_wf(reg) && reg_is_kind(reg, kind) && reg_is_kind(reg, escaped_word()) && reg_is_kind(reg, equal_word()) }
pub proof fn lemma_render_marked(reg: OpaqueRegistry, kind: Seq<char>, rendered: Seq<char>, unp: bool, opt: bool, multi: bool, me: bool)
    requires reg_knows(reg, kind), !is_bare(kind, unp, opt, multi),
    ensures line_parts(reg, render_spec(kind, rendered, unp, opt, multi, me)) == (written_expr(kind, rendered, unp), written_kind(kind, unp), quant_of(opt, multi)),
{
    let q = quant_of(opt, multi);
    if kind == equal_word() {
        if unp { lemma_with_mod_parts(reg, protect(rendered), escaped_word(), q); } else { lemma_with_mod_parts(reg, rendered, Seq::empty(), q); }
    } else if kind == escaped_word() { lemma_with_mod_parts(reg, protect(rendered), kind, q); }
    else { lemma_with_mod_parts(reg, rendered, kind, q); }
}
/// a bare `equal` line reads back as the whole line when the choice between bare and ` (equal)` is made by has_proper_mod
pub proof fn lemma_render_bare(reg: OpaqueRegistry, rendered: Seq<char>)
    requires reg_knows(reg, equal_word()),
    ensures line_parts(reg, render_spec(equal_word(), rendered, false, false, false, has_proper_mod(reg, rendered))) == (rendered, equal_word(), Seq::<char>::empty()),
{
    if has_proper_mod(reg, rendered) { lemma_with_mod_parts(reg, rendered, equal_word(), Seq::empty()); }
}
/// the quantifier characters decode to the flags they were written for
pub proof fn lemma_quant_roundtrip(optional: bool, multiline: bool)
    ensures ({ let q = quant_of(optional, multiline); (q == star() || q == qmark()) == optional && (q == star() || q == plus()) == multiline && quant_ok(q) }),
{
    assert(star()[0] == '*' && qmark()[0] == '?' && plus()[0] == '+');
    assert(star().len() == 1 && qmark().len() == 1 && plus().len() == 1 && Seq::<char>::empty().len() == 0);
}
/// C08, last sentence, over the two contracts (C08.render.form and C08.parse.quantifier / C08.parse.rule): the canonical rendering of
/// an expectation reads back -- with the default registry -- as the written expression text (the rendering; an escaped one with a final ` (no-eol)` protected) under the written kind, and its quantifier
/// decodes to the same optional / multiline flags
pub proof fn lemma_c08_roundtrip(kind: Seq<char>, rendered: Seq<char>, unp: bool, opt: bool, multi: bool)
    requires reg_knows(dreg(), kind),
    ensures ({ let p = line_parts(dreg(), render_spec(kind, rendered, unp, opt, multi, has_proper_mod(dreg(), rendered)));
        p.0 == written_expr(kind, rendered, unp) && p.1 == written_kind(kind, unp) && (p.2 == star() || p.2 == qmark()) == opt && (p.2 == star() || p.2 == plus()) == multi }),
{
    lemma_quant_roundtrip(opt, multi);
    if is_bare(kind, unp, opt, multi) { lemma_render_bare(dreg(), rendered); }
    else { lemma_render_marked(dreg(), kind, rendered, unp, opt, multi, has_proper_mod(dreg(), rendered)); }
}
