// ---- escape_lang.rs: the escaped-expression language (C04 escaped kind, C11) over Seq<char> / Seq<u8>

/// what `\` + c stands for in the first decoding stage (named control characters); everything else is kept
pub open spec fn unesc_pair(c: char) -> Seq<char> {
    if c == 'a' { seq!['\x07'] } else if c == 'b' { seq!['\x08'] } else if c == 'e' { seq!['\x1b'] }
    else if c == 'f' { seq!['\x0c'] } else if c == 'r' { seq!['\r'] } else if c == 't' { seq!['\t'] }
    else if c == 'v' { seq!['\x0b'] } else { seq!['\\', c] }
}
/// stage 1: left-to-right, `\`+c is one token, anything else a token of its own
pub open spec fn unesc(s: Seq<char>) -> Seq<char> decreases s.len() {
    if s.len() == 0 { Seq::empty() }
    else if s[0] == '\\' && s.len() >= 2 { unesc_pair(s[1]) + unesc(s.skip(2)) }
    else { seq![s[0]] + unesc(s.skip(1)) }
}
pub proof fn lemma_unesc_step(s: Seq<char>)
    ensures
        s.len() >= 2 && s[0] == '\\' ==> unesc(s) == unesc_pair(s[1]) + unesc(s.skip(1).skip(1)),
        s.len() >= 1 && !(s[0] == '\\' && s.len() >= 2) ==> unesc(s) == seq![s[0]] + unesc(s.skip(1)),
{
    if s.len() >= 2 { assert(s.skip(1).skip(1) =~= s.skip(2)); }
}
// ------------------------------------------------------------------ stage 2: escape sequences -> bytes
pub open spec fn prepend(p: Seq<u8>, o: Option<Seq<u8>>) -> Option<Seq<u8>> {
    match o { Some(t) => Some(p + t), None => None }
}
pub open spec fn opt_eq(x: Option<Seq<u8>>, y: Option<Seq<u8>>) -> bool {
    match (x, y) { (Some(a), Some(b)) => a =~= b, (None, None) => true, _ => false }
}
/// left-to-right: `\0oo` octal byte, `\xhh` hex byte, `\\` one backslash, `\`+c both kept (they are not an escape sequence: the backslash and the UTF-8 encoding of c), a lone trailing `\` is an error, every other char contributes its UTF-8 encoding
pub open spec fn resolve(s: Seq<char>) -> Option<Seq<u8>> decreases s.len() {
    if s.len() == 0 { Some(Seq::empty()) }
    else if s[0] != '\\' { prepend(encode_utf8(seq![s[0]]), resolve(s.skip(1))) }
    else if s.len() < 2 { None }
    else if s[1] == '0' || s[1] == 'x' {
        if s.len() < 4 { None } else {
            match radix_u8(seq![s[2], s[3]], if s[1] == '0' { 8u32 } else { 16u32 }) {
                None => None,
                Some(b) => prepend(seq![b], resolve(s.skip(4))),
            }
        }
    }
    else if s[1] == '\\' { prepend(seq![92u8], resolve(s.skip(2))) }
    else { prepend(seq![92u8] + encode_utf8(seq![s[1]]), resolve(s.skip(2))) }
}
/// the unfolding of `resolve`, phrased with nested `skip(1)` as the iterator produces them
pub proof fn lemma_resolve_step(s: Seq<char>)
    ensures
        s.len() >= 1 && s[0] != '\\' ==> resolve(s) == prepend(encode_utf8(seq![s[0]]), resolve(s.skip(1))),
        s.len() == 1 && s[0] == '\\' ==> resolve(s) is None,
        s.len() >= 2 && s[0] == '\\' && (s[1] == '0' || s[1] == 'x') && s.len() < 4 ==> resolve(s) is None,
        s.len() >= 4 && s[0] == '\\' && (s[1] == '0' || s[1] == 'x') ==> resolve(s) == (
            match radix_u8(seq![s[2], s[3]], if s[1] == '0' { 8u32 } else { 16u32 }) {
                None => None,
                Some(b) => prepend(seq![b], resolve(s.skip(1).skip(1).skip(1).skip(1))),
            }),
        s.len() >= 2 && s[0] == '\\' && s[1] == '\\' ==> resolve(s) == prepend(seq![92u8], resolve(s.skip(1).skip(1))),
        s.len() >= 2 && s[0] == '\\' && s[1] != '\\' && s[1] != '0' && s[1] != 'x' ==>
            resolve(s) == prepend(seq![92u8] + encode_utf8(seq![s[1]]), resolve(s.skip(1).skip(1))),
        // any two-char string made of s[2], s[3] (e.g. the Vec<char> the code collects) parses like seq![s[2], s[3]]
        s.len() >= 4 ==> forall|q: Seq<char>, r: u32| #![trigger radix_u8(q, r)]
            q.len() == 2 && q[0] == s[2] && q[1] == s[3] ==> radix_u8(q, r) == radix_u8(seq![s[2], s[3]], r),
{
    if s.len() >= 4 {
        assert forall|q: Seq<char>, r: u32| #![trigger radix_u8(q, r)]
            q.len() == 2 && q[0] == s[2] && q[1] == s[3] implies radix_u8(q, r) == radix_u8(seq![s[2], s[3]], r) by {
            assert(q =~= seq![s[2], s[3]]);
        }
    }
    if s.len() >= 2 { assert(s.skip(1).skip(1) =~= s.skip(2)); }
    if s.len() >= 4 { assert(s.skip(1).skip(1).skip(1).skip(1) =~= s.skip(4)); }
}

/// the meaning of an `(escaped)` expression: both stages
pub open spec fn decode(s: Seq<char>) -> Option<Seq<u8>> { resolve(unesc(s)) }

// ------------------------------------------------------------------ encoder side
pub open spec fn hexdigit(d: int) -> char {
    if d == 0 { '0' } else if d == 1 { '1' } else if d == 2 { '2' } else if d == 3 { '3' } else if d == 4 { '4' }
    else if d == 5 { '5' } else if d == 6 { '6' } else if d == 7 { '7' } else if d == 8 { '8' } else if d == 9 { '9' }
    else if d == 10 { 'a' } else if d == 11 { 'b' } else if d == 12 { 'c' } else if d == 13 { 'd' } else if d == 14 { 'e' } else { 'f' }
}
/// `{:02x}` of a byte
pub open spec fn hex2(b: u8) -> Seq<char> { seq![hexdigit(b as int / 16), hexdigit(b as int % 16)] }
/// one byte, ascii mode (the table in `byte_to_ascii`)
pub open spec fn enc_a(b: u8) -> Seq<char> {
    if b == 10 { seq!['\\', 'n'] } else if b == 13 { seq!['\\', 'r'] } else if b == 9 { seq!['\\', 't'] }
    else if b == 7 { seq!['\\', 'a'] } else if b == 8 { seq!['\\', 'b'] } else if b == 12 { seq!['\\', 'f'] }
    else if b == 11 { seq!['\\', 'v'] } else if b == 92 { seq!['\\', '\\'] }
    else if 0x20 <= b <= 0x7e { seq![b as char] }
    else { seq!['\\', 'x'] + hex2(b) }
}

// ------------------------------------------------------------------ newline helpers
pub open spec fn ends_nl(b: Seq<u8>) -> bool { b.len() > 0 && b.last() == 10u8 }
/// the line without its trailing LF characters
pub open spec fn strip_nl(b: Seq<u8>) -> Seq<u8> decreases b.len() {
    if ends_nl(b) { strip_nl(b.drop_last()) } else { b }
}

// ------------------------------------------------------------------ regex kind
pub uninterp spec fn regex_clean1(e: Seq<char>) -> Seq<char>;
pub uninterp spec fn regex_clean2(e: Seq<char>) -> Seq<char>;
pub uninterp spec fn regex_clean3(e: Seq<char>) -> Seq<char>;
/// an expression that IS a regular expression is taken as written; only one that is not goes through the three best-effort clean-ups
pub open spec fn regex_cleaned(e: Seq<char>) -> Seq<char> { if regex_valid(e) { e } else { regex_clean3(regex_clean2(regex_clean1(e))) } }
/// the pattern that makes `e` match the WHOLE candidate: both anchors apply to the entire expression,
/// also when `e` has a top-level alternation (`a|b`)
pub open spec fn whole_line(e: Seq<char>) -> Seq<char> { seq!['^', '(', '?', ':'] + e + seq![')', '$'] }
pub open spec fn printable_ascii(b: u8) -> bool { 0x20 <= b <= 0x7e }
pub open spec fn exists_unprintable(bs: Seq<u8>) -> bool { exists|k: int| 0 <= k < bs.len() && !printable_ascii(#[trigger] bs[k]) }
/// the escaped rendering of a byte string in ascii mode: the per-byte tokens, concatenated
pub open spec fn enc_ascii(bs: Seq<u8>) -> Seq<char> decreases bs.len() {
    if bs.len() == 0 { Seq::empty() } else { enc_ascii(bs.drop_last()) + enc_a(bs.last()) }
}

// ------------------------------------------------------------------ `(escaped)` marker on glob expressions, `(no-eol)` on escaped ones
pub open spec fn strip_suffix_of(e: Seq<char>, p: Seq<char>) -> Seq<char> { e.subrange(0, e.len() - p.len()) }
pub open spec fn m_escaped() -> Seq<char> { seq![' ', '(', 'e', 's', 'c', 'a', 'p', 'e', 'd', ')'] }
pub open spec fn m_escaped_bs() -> Seq<char> { seq![' ', '\\', '(', 'e', 's', 'c', 'a', 'p', 'e', 'd', '\\', ')'] }
pub open spec fn m_esc() -> Seq<char> { seq![' ', '(', 'e', 's', 'c', ')'] }
pub open spec fn m_esc_bs() -> Seq<char> { seq![' ', '\\', '(', 'e', 's', 'c', '\\', ')'] }
/// the expression without its ` (escaped)` / ` \(escaped\)` / ` (esc)` / ` \(esc\)` marker (first that applies), if it has one
pub open spec fn as_escaped(e: Seq<char>) -> Option<Seq<char>> {
    if is_suffix_of(m_escaped(), e) { Some(strip_suffix_of(e, m_escaped())) }
    else if is_suffix_of(m_escaped_bs(), e) { Some(strip_suffix_of(e, m_escaped_bs())) }
    else if is_suffix_of(m_esc(), e) { Some(strip_suffix_of(e, m_esc())) }
    else if is_suffix_of(m_esc_bs(), e) { Some(strip_suffix_of(e, m_esc_bs())) }
    else { None }
}
pub open spec fn without_noeol(e: Seq<char>) -> Seq<char> { if is_suffix_of(m_noeol(), e) { strip_suffix_of(e, m_noeol()) } else { e } }
/// cutting a char-suffix off is a cut at a char boundary, at byte offset blen(e) - blen(p)
pub proof fn lemma_suffix_boundary(e: Seq<char>, p: Seq<char>)
    requires is_suffix_of(p, e),
    ensures blen(e) == blen(e.take(e.len() - p.len())) + blen(p), boundary(e, blen(e) - blen(p)), boundary(e, 0), blen(e.take(0)) == 0,
        e.subrange(0, e.len() - p.len()) == e.take(e.len() - p.len()),
{
    let k = e.len() - p.len();
    assert(e =~= e.take(k) + p);
    encode_utf8_concat(e.take(k), p);
    assert(boundary(e, blen(e) - blen(p))) by { assert(blen(e.take(k)) == blen(e) - blen(p)); }
    assert(e.take(0) =~= Seq::<char>::empty());
    encode_utf8_concat(Seq::<char>::empty(), Seq::<char>::empty());
    assert(Seq::<char>::empty() + Seq::<char>::empty() =~= Seq::<char>::empty());
    assert(boundary(e, 0)) by { assert(blen(e.take(0)) == 0); }
    assert(e.subrange(0, k) =~= e.take(k));
}

// ------------------------------------------------------------------ Cram glob -> regex translation table (C04)
pub open spec fn glob_special(c: char) -> bool { c == '*' || c == '?' || c == '\\' }
/// the regular expression a Cram glob stands for, token by token: `\*` `\?` `\\` stay escaped (a literal), `*` is any run (`.*`),
/// `?` is exactly one character (`.`), every other character is itself, escaped for the regex crate
pub open spec fn g2r(g: Seq<char>) -> Seq<char> decreases g.len() {
    if g.len() == 0 { Seq::empty() }
    else if g[0] == '\\' && g.len() >= 2 && glob_special(g[1]) { seq!['\\', g[1]] + g2r(g.skip(2)) }
    else if g[0] == '*' { seq!['.', '*'] + g2r(g.skip(1)) }
    else if g[0] == '?' { seq!['.'] + g2r(g.skip(1)) }
    else { rx_escape(seq![g[0]]) + g2r(g.skip(1)) }
}
/// the whole pattern: anchored at both ends
pub open spec fn glob_pattern(g: Seq<char>) -> Seq<char> { seq!['^'] + g2r(g) + seq!['$'] }
pub proof fn lemma_g2r_step(g: Seq<char>, i: int)
    requires 0 <= i < g.len(),
    ensures
        g[i] == '\\' && i + 1 < g.len() && glob_special(g[i + 1]) ==> g2r(g.skip(i)) == seq!['\\', g[i + 1]] + g2r(g.skip(i + 2)),
        !(g[i] == '\\' && i + 1 < g.len() && glob_special(g[i + 1])) && g[i] == '*' ==> g2r(g.skip(i)) == seq!['.', '*'] + g2r(g.skip(i + 1)),
        !(g[i] == '\\' && i + 1 < g.len() && glob_special(g[i + 1])) && g[i] == '?' ==> g2r(g.skip(i)) == seq!['.'] + g2r(g.skip(i + 1)),
        !(g[i] == '\\' && i + 1 < g.len() && glob_special(g[i + 1])) && g[i] != '*' && g[i] != '?' ==> g2r(g.skip(i)) == rx_escape(seq![g[i]]) + g2r(g.skip(i + 1)),
{
    let s = g.skip(i);
    assert(s[0] == g[i]);
    if i + 1 < g.len() { assert(s[1] == g[i + 1]); }
    assert(s.skip(1) =~= g.skip(i + 1));
    if i + 2 <= g.len() { assert(s.skip(2) =~= g.skip(i + 2)); }
}
/// statement level: in the translated pattern a `?` of the glob is exactly one `.` and a `*` exactly one `.*`, position by position
/// (the pattern is the concatenation of the per-token translations, nothing is added or dropped)
pub proof fn lemma_g2r_tokens(g: Seq<char>)
    ensures
        g.len() == 0 ==> g2r(g).len() == 0,
        g.len() > 0 && g[0] == '?' ==> g2r(g) == seq!['.'] + g2r(g.skip(1)),
        g.len() > 0 && g[0] == '*' ==> g2r(g) == seq!['.', '*'] + g2r(g.skip(1)),
{}
