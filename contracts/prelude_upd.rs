// ---- prelude for the update generator unit (C10). TRUSTED.
// Outcome (test case + output + verdict) is opaque: what generate_testcase() writes for it is an uninterpreted partial function
// (OutcomeTestGenerator for Outcome: escaping C11, expectation rendering C08, diff C01-C03 decide its ingredients).
#[verifier::external_body]
pub struct OpaqueOutcome { _p: () }
pub uninterp spec fn gen_ok(o: OpaqueOutcome) -> bool;
pub uninterp spec fn gen_text(o: OpaqueOutcome) -> Seq<char>;
impl OpaqueOutcome {
    #[verifier::external_body]
    pub fn generate_testcase(&self) -> (r: anyhow::Result<String>)
        ensures (r is Ok) == gen_ok(*self), r is Ok ==> r->Ok_0@ == gen_text(*self)
    { unimplemented!() }
}
#[verifier::external_body]
pub fn __slice_is_empty<T>(s: &[T]) -> (r: bool) ensures r == (s@.len() == 0) { s.is_empty() }
/// StringNewline::assure_newline for String / &str (src/newline.rs: `if line.ends_with('\n') { line } else { line + "\n" }`)
pub open spec fn assure_nl(s: Seq<char>) -> Seq<char> { if s.len() > 0 && s.last() == '\n' { s } else { s.push('\n') } }
#[verifier::external_body]
pub fn __assure_newline_string(s: &String) -> (r: String) ensures r@ == assure_nl(s@) { unimplemented!() }
#[verifier::external_body]
pub fn __repeat_char(c: char, n: usize) -> (r: String) ensures r@ == Seq::new(n as nat, |i: int| c) { unimplemented!() }
#[verifier::external_body]
pub fn __string_trim_start(s: &String) -> (r: String) ensures r@ == str_trim_start(s@) { unimplemented!() }
#[verifier::external_body]
pub fn __push_str(s: &mut String, t: &str) ensures final(s)@ == old(s)@ + t@ { s.push_str(t) }

// ---- final line feed of an updated document (generators/markdown.rs, fix F31)
/// String::pop, result dropped
#[verifier::external_body]
pub fn __string_pop(s: &mut String) ensures old(s)@.len() > 0 ==> final(s)@ == old(s)@.drop_last(), old(s)@.len() == 0 ==> final(s)@ == old(s)@ { s.pop(); }
/// the text every token gave (each line with its line feed), with the last line feed taken off again when the document has none
pub open spec fn final_lf(doc: Seq<char>, text: Seq<char>) -> Seq<char> {
    if !(doc.len() > 0 && doc.last() == '\n') && text.len() > 0 && text.last() == '\n' { text.drop_last() } else { text }
}
