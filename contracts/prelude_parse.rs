// ---- prelude for the parser units (C07, C06-parse). TRUSTED.
// Arc<ExpectationMaker>: the expectation grammar lives in a regular expression interpreted by the regex crate (C08, not
// claimed): modelled as an uninterpreted partial function from the line's text to an Expectation.
#[verifier::external_body]
pub struct OpaqueMaker { _p: () }
pub uninterp spec fn exp_ok(line: Seq<char>) -> bool;
pub uninterp spec fn exp_of(line: Seq<char>) -> Expectation;
impl OpaqueMaker {
    #[verifier::external_body]
    pub fn parse(&self, line: &str) -> (r: anyhow::Result<Expectation>)
        ensures (r is Ok) == exp_ok(line@), r is Ok ==> r->Ok_0 == exp_of(line@)
    { unimplemented!() }
    #[verifier::external_body]
    pub fn clone(&self) -> (r: OpaqueMaker) { unimplemented!() }
}
// `X.to_owned().unwrap_or_default()` / `X.clone().unwrap_or_default()` (R37)
pub uninterp spec fn default_of<T>() -> T;
#[verifier::external_body]
pub fn __clone_or_default<T: Clone + Default>(x: &Option<T>) -> (r: T)
    ensures x is Some ==> r == x->0, x is None ==> r == default_of::<T>()
{ x.clone().unwrap_or_default() }
/// String::default() is the empty string
#[verifier::external_body]
pub proof fn axiom_default_string() ensures default_of::<String>()@ == Seq::<char>::empty() {}
// Vec<String>::join("\n")
pub open spec fn join_nl(v: Seq<Seq<char>>) -> Seq<char> decreases v.len() {
    if v.len() == 0 { Seq::empty() } else if v.len() == 1 { v[0] } else { join_nl(v.drop_last()) + seq!['\n'] + v.last() }
}
pub open spec fn strings_view(v: Seq<String>) -> Seq<Seq<char>> { Seq::new(v.len(), |i: int| v[i]@) }
#[verifier::external_body]
pub fn __join_newline(v: &Vec<String>) -> (r: String) ensures r@ == join_nl(strings_view(v@)) { v.join("\n") }
// str::lines() collected: the document as the sequence of its lines (std's splitting at LF / CR LF is uninterpreted)
pub uninterp spec fn str_lines(text: Seq<char>) -> Seq<Seq<char>>;
#[verifier::external_body]
pub fn __lines_vec<'a>(text: &'a str) -> (r: Vec<&'a str>) ensures strs_view(r@) == str_lines(text@), r@.len() < usize::MAX { text.lines().collect() }
#[verifier::external_body]
pub fn __spaces(n: usize) -> (r: String) ensures r@ == Seq::new(n as nat, |i: int| ' ') { " ".repeat(n) }
// derived Default of the two configuration structs: every key unset, no environment, no include lists
#[verifier::external_body]
pub fn __derived_default_TestCaseConfig() -> (r: TestCaseConfig)
    ensures r.detached is None, r.environment@.dom() =~= Set::<String>::empty(), r.keep_crlf is None, r.output_stream is None,
        r.skip_document_code is None, r.strip_ansi_escaping is None, r.timeout is None, r.wait is None
{ unimplemented!() }
#[verifier::external_body]
pub fn __maker_clone(m: &OpaqueMaker) -> (r: OpaqueMaker) { unimplemented!() }
// R42: Vec<String> viewed as Vec<&str>
#[verifier::external_body]
pub fn __strs_of<'a>(v: &'a Vec<String>) -> (r: Vec<&'a str>) ensures strs_view(r@) == strings_view(v@) { v.iter().map(|s| s as &str).collect() }
