// ---- prelude for the config unit (C16). TRUSTED.
use std::collections::BTreeMap;
use std::time::Duration;
use std::path::PathBuf;

#[verifier::external_type_specification]
#[verifier::external_body]
pub struct ExPathBuf(PathBuf);

pub assume_specification [<PathBuf as Clone>::clone] (p: &PathBuf) -> (r: PathBuf) ensures r == *p;

pub assume_specification<T> [Option::<T>::or] (a: Option<T>, b: Option<T>) -> (r: Option<T>)
    ensures r == (if a is Some { a } else { b });

// R15: `X.clone().or_else(|| Y.clone())`; Clone of Option<bool|i32|Duration|PathBuf|derived-Clone struct/enum> yields an equal value
#[verifier::external_body]
pub fn __clone_or_else<T: Clone>(a: &Option<T>, b: &Option<T>) -> (r: Option<T>)
    ensures r == (if *a is Some { *a } else { *b })
{ a.clone().or_else(|| b.clone()) }

// R7: FromIterator<(K,V)> for BTreeMap inserts in iteration order, so for a key present in both
// operands of `a.into_iter().chain(b)` the value from `b` (the later one) wins
#[verifier::external_body]
pub fn __btree_chain_collect(a: BTreeMap<String, String>, b: BTreeMap<String, String>) -> (r: BTreeMap<String, String>)
    ensures r@ == a@.union_prefer_right(b@)
{ a.into_iter().chain(b).collect() }

pub open spec fn pick<T>(a: Option<T>, b: Option<T>) -> Option<T> { if a is Some { a } else { b } }

pub uninterp spec fn dur_secs(d: Duration) -> u64;
pub assume_specification [Duration::as_secs] (d: &Duration) -> (r: u64) ensures r == dur_secs(*d);
pub uninterp spec fn dur_is_zero(d: Duration) -> bool;
pub assume_specification [Duration::is_zero] (d: &Duration) -> (r: bool) ensures r == dur_is_zero(*d);

pub uninterp spec fn dur_from_secs(s: u64) -> Duration;
pub assume_specification [Duration::from_secs] (s: u64) -> (r: Duration) ensures r == dur_from_secs(s);
