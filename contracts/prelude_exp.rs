// ---- prelude for the expectation grammar unit (C08). TRUSTED.
// RuleRegistry is a HashMap<String, fn(&str) -> Result<Box<dyn Rule>>>: opaque here. Which names are registered and what a
// registered maker returns are uninterpreted; `make` fails for an unregistered name (src/rules/registry.rs, read, not verified).
#[verifier::external_body]
pub struct OpaqueRegistry { _p: () }
pub uninterp spec fn reg_is_kind(r: OpaqueRegistry, k: Seq<char>) -> bool;
pub uninterp spec fn reg_make_ok(r: OpaqueRegistry, k: Seq<char>, e: Seq<char>) -> bool;
pub uninterp spec fn reg_make(r: OpaqueRegistry, k: Seq<char>, e: Seq<char>) -> DynRule;
impl OpaqueRegistry {
    #[verifier::external_body]
    pub fn make(&self, kind: &str, expression: &str) -> (r: anyhow::Result<DynRule>)
        ensures (r is Ok) == reg_make_ok(*self, kind@, expression@), r is Ok ==> r->Ok_0 == reg_make(*self, kind@, expression@),
            !reg_is_kind(*self, kind@) ==> r is Err,
    { unimplemented!() }
}
/// `\s` of the regex crate (Unicode White_Space)
pub uninterp spec fn is_ws(c: char) -> bool;
/// newline::trim_newlines(&str)
pub uninterp spec fn trim_nl(s: Seq<char>) -> Seq<char>;
#[verifier::external_body]
pub fn __trim_newlines(s: &&str) -> (r: String) ensures r@ == trim_nl(s@) { unimplemented!() }
#[verifier::external_body]
pub fn __string_eq_str(a: &String, b: &str) -> (r: bool) ensures r == (a@ == b@) { a == b }
// what a rule is made of (Rule::unmake) and the two Escaper functions used for rendering (their contracts are C11's subject)
pub uninterp spec fn rule_kind(r: DynRule) -> Seq<char>;
pub uninterp spec fn rule_expr(r: DynRule) -> Seq<u8>;
impl DynRule {
    #[verifier::external_body]
    pub fn unmake(&self) -> (r: (String, Vec<u8>)) ensures r.0@ == rule_kind(*self), r.1@ == rule_expr(*self) { unimplemented!() }
}
pub uninterp spec fn esc_printable(e: Escaper, raw: Seq<u8>) -> Seq<char>;
pub uninterp spec fn esc_unprintable(e: Escaper, raw: Seq<u8>) -> bool;
impl Escaper {
    #[verifier::external_body]
    pub fn escaped_printable(&self, raw: &Vec<u8>) -> (r: String) ensures r@ == esc_printable(*self, raw@) { unimplemented!() }
    #[verifier::external_body]
    pub fn has_unprintable(&self, raw: &Vec<u8>) -> (r: bool) ensures r == esc_unprintable(*self, raw@) { unimplemented!() }
}
/// U+0020 is White_Space
#[verifier::external_body]
pub proof fn axiom_space_is_ws() ensures is_ws(' ') {}
/// RuleRegistry::default(): registers equal/eq, no-eol, escaped/esc, glob/gl, regex/re (src/rules/registry.rs, read, not verified)
pub uninterp spec fn dreg() -> OpaqueRegistry;
#[verifier::external_body]
pub proof fn axiom_default_registry()
    ensures reg_wf(dreg()), reg_is_kind(dreg(), seq!['e', 'q', 'u', 'a', 'l']), reg_is_kind(dreg(), seq!['e', 's', 'c', 'a', 'p', 'e', 'd']) {}
