// ---- prelude for the expectation grammar unit (C08). TRUSTED. (registry part: prelude_reg.rs)
// what a rule is made of (Rule::unmake) and the two Escaper functions used for rendering (their contracts are C11's subject)
pub uninterp spec fn rule_kind(r: DynRule) -> Seq<char>;
pub uninterp spec fn rule_expr(r: DynRule) -> Seq<u8>;
impl DynRule {
    #[verifier::external_body]
    pub fn unmake(&self) -> (r: (String, Vec<u8>)) ensures r.0@ == rule_kind(*self), r.1@ == rule_expr(*self) { unimplemented!() }
}
pub uninterp spec fn esc_printable(e: Escaper, raw: Seq<u8>) -> Seq<char>;
pub uninterp spec fn esc_unprintable(e: Escaper, raw: Seq<u8>) -> bool;
impl Escaper {
    #[verifier::external_body]
    pub fn escaped_printable(&self, raw: &Vec<u8>) -> (r: String) ensures r@ == esc_printable(*self, raw@) { unimplemented!() }
    #[verifier::external_body]
    pub fn has_unprintable(&self, raw: &Vec<u8>) -> (r: bool) ensures r == esc_unprintable(*self, raw@) { unimplemented!() }
}
