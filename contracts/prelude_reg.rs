// ---- prelude_reg.rs: the rule registry and the regular-expression vocabulary (C08, C09). TRUSTED.
// RuleRegistry is a HashMap<String, fn(&str) -> Result<Box<dyn Rule>>>: opaque here. Which names are registered and what a
// registered maker returns are uninterpreted; `make` fails for an unregistered name (src/rules/registry.rs, read, not verified).
#[verifier::external_body]
pub struct OpaqueRegistry { _p: () }
pub uninterp spec fn reg_is_kind(r: OpaqueRegistry, k: Seq<char>) -> bool;
pub uninterp spec fn reg_make_ok(r: OpaqueRegistry, k: Seq<char>, e: Seq<char>) -> bool;
pub uninterp spec fn reg_make(r: OpaqueRegistry, k: Seq<char>, e: Seq<char>) -> DynRule;
impl OpaqueRegistry {
    #[verifier::external_body]
    pub fn make(&self, kind: &str, expression: &str) -> (r: anyhow::Result<DynRule>)
        ensures (r is Ok) == reg_make_ok(*self, kind@, expression@), r is Ok ==> r->Ok_0 == reg_make(*self, kind@, expression@),
            !reg_is_kind(*self, kind@) ==> r is Err,
    { unimplemented!() }
}
/// `\s` of the regex crate (Unicode White_Space)
pub uninterp spec fn is_ws(c: char) -> bool;
/// newline::trim_newlines(&str)
pub uninterp spec fn trim_nl(s: Seq<char>) -> Seq<char>;
#[verifier::external_body]
pub fn __trim_newlines(s: &&str) -> (r: String) ensures r@ == trim_nl(s@) { unimplemented!() }
#[verifier::external_body]
pub fn __string_eq_str(a: &String, b: &str) -> (r: bool) ensures r == (a@ == b@) { a == b }
/// U+0020 is White_Space
#[verifier::external_body]
pub proof fn axiom_space_is_ws() ensures is_ws(' ') {}
/// RuleRegistry::default(): registers equal/eq, no-eol, escaped/esc, glob/gl, regex/re (src/rules/registry.rs, read, not verified)
pub uninterp spec fn dreg() -> OpaqueRegistry;
#[verifier::external_body]
pub proof fn axiom_default_registry()
    ensures reg_wf(dreg()), reg_is_kind(dreg(), seq!['e', 'q', 'u', 'a', 'l']), reg_is_kind(dreg(), seq!['e', 's', 'c', 'a', 'p', 'e', 'd']),
        reg_is_kind(dreg(), seq!['n', 'o', '-', 'e', 'o', 'l']) {}
