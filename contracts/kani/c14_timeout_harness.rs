// Property functions take explicit inputs so that the same code is (a) proved for all inputs by the
// #[kani::proof] harnesses and (b) re-run on a concrete counterexample by the plain #[test] replays.
fn mk(is_global: bool, secs: u64, nanos: u32) -> Timeout {
    Timeout { is_global, timeout: Duration::new(secs, nanos) }
}
/// "whichever limit is reached first": the effective limit picked by `.min()` (the idiom of
/// StatefulExecutor::execute_all) is the smaller duration, whatever the kinds of the two limits.
fn prop_min_is_smaller_duration(v: [u64; 6]) -> bool {
    let a = mk(v[0] != 0, v[1], v[2] as u32);
    let b = mk(v[3] != 0, v[4], v[5] as u32);
    let (da, db) = (a.timeout, b.timeout);
    let m = Some(a).min(Some(b)).unwrap();
    m.timeout <= da && m.timeout <= db
}
/// the kind of a limit (per-test / remaining document time) only breaks ties between equal durations
fn prop_kind_only_breaks_ties(v: [u64; 6]) -> bool {
    let a = mk(v[0] != 0, v[1], v[2] as u32);
    let b = mk(v[3] != 0, v[4], v[5] as u32);
    !(a.timeout < b.timeout) || a < b
}

#[cfg(kani)]
mod harness {
    use super::*;
    fn any_inputs() -> [u64; 6] {
        let v: [u64; 6] = kani::any();
        kani::assume(v[0] <= 1 && v[3] <= 1 && v[2] < 1_000_000_000 && v[5] < 1_000_000_000);
        v
    }
    #[kani::proof]
    fn min_is_smaller_duration() {
        assert!(prop_min_is_smaller_duration(any_inputs()));
    }
    #[kani::proof]
    fn per_test_vs_global_tie() {
        assert!(prop_kind_only_breaks_ties(any_inputs()));
    }
    /// vacuity control: must FAIL (shows the assumptions on the inputs are satisfiable)
    #[kani::proof]
    fn vacuity_inputs_reachable() {
        let _v = any_inputs();
        assert!(false);
    }
}

#[cfg(test)]
mod replay {
    use super::*;
    fn inputs() -> [u64; 6] {
        let s = std::env::var("KX_REPLAY").expect("KX_REPLAY=v0,v1,..");
        let v: Vec<u64> = s.split(',').map(|x| x.trim().parse().unwrap()).collect();
        [v[0], v[1], v[2], v[3], v[4], v[5]]
    }
    #[test]
    fn min_is_smaller_duration() { assert!(prop_min_is_smaller_duration(inputs())); }
    #[test]
    fn per_test_vs_global_tie() { assert!(prop_kind_only_breaks_ties(inputs())); }
}
