fn mk(kind: u64, payload: u64) -> ExitStatus {
    match kind {
        0 => ExitStatus::Exited(payload as u32),
        1 => ExitStatus::Signaled(payload as u8),
        2 => ExitStatus::Other(payload as i32),
        _ => ExitStatus::Undetermined,
    }
}
/// a process that ended by a signal, or whose status is unknown, never yields an exit *code*; an exit code is passed on unchanged
fn prop_exit_mapping(v: [u64; 2]) -> bool {
    let st = mk(v[0], v[1]);
    let out: OutputExitStatus = st.into();
    match st {
        ExitStatus::Exited(c) => out == OutputExitStatus::Code(c as i32),
        ExitStatus::Other(c) => out == OutputExitStatus::Code(c),
        ExitStatus::Signaled(_) | ExitStatus::Undetermined => out == OutputExitStatus::Unknown,
    }
}
#[cfg(kani)]
mod harness {
    use super::*;
    fn any_inputs() -> [u64; 2] {
        let v: [u64; 2] = kani::any();
        kani::assume(v[0] <= 3 && v[1] <= u32::MAX as u64);
        v
    }
    #[kani::proof]
    fn exit_mapping() { assert!(prop_exit_mapping(any_inputs())); }
    #[kani::proof]
    fn vacuity_inputs_reachable() { let _v = any_inputs(); assert!(false); }
}
#[cfg(test)]
mod replay {
    use super::*;
    #[test]
    fn exit_mapping() {
        let s = std::env::var("KX_REPLAY").expect("KX_REPLAY=v0,v1");
        let v: Vec<u64> = s.split(',').map(|x| x.trim().parse().unwrap()).collect();
        assert!(prop_exit_mapping([v[0], v[1]]));
    }
}
