// ---- prelude for the timeouts unit (C14). TRUSTED.
use std::time::Duration;
pub assume_specification<T> [Option::<T>::or] (a: Option<T>, b: Option<T>) -> (r: Option<T>)
    ensures r == (if a is Some { a } else { b });
pub uninterp spec fn dur_is_zero(d: Duration) -> bool;
pub assume_specification [Duration::is_zero] (d: &Duration) -> (r: bool) ensures r == dur_is_zero(*d);
// lazy_static DEFAULT_TOTAL_TIMEOUT (src/executors/executor.rs): some fixed duration
pub uninterp spec fn default_total() -> Duration;
#[verifier::external_body]
pub fn __default_total_timeout() -> (r: Duration) ensures r == default_total() { unimplemented!() }
// std::time::Instant: opaque; `now() + d`, and the (saturating) distance to a later instant
#[verifier::external_body]
pub struct Instant { _p: () }
impl Instant {
    #[verifier::external_body]
    pub fn now() -> (r: Instant) { unimplemented!() }
    #[verifier::external_body]
    pub fn add(self, d: Duration) -> (r: Instant) { unimplemented!() }
    #[verifier::external_body]
    pub fn duration_since(&self, earlier: Instant) -> (r: Duration) { unimplemented!() }
    #[verifier::external_body]
    pub fn checked_duration_since(&self, earlier: Instant) -> (r: Option<Duration>) { unimplemented!() }
    #[verifier::external_body]
    pub fn saturating_duration_since(&self, earlier: Instant) -> (r: Duration) { unimplemented!() }
}
/// field-access shims: Context.config.total_timeout : Option<Duration>
pub struct DocConfigShim { pub total_timeout: Option<Duration> }
pub struct ContextShim { pub config: DocConfigShim }
