// ---- prelude for the markdown unit (C06). TRUSTED.
// std::str::Lines: opaque; `remaining()` = the lines not yet returned (the laws mirror vstd's for Chars)
#[verifier::external_body]
pub struct LinesIter<'a> { _p: core::marker::PhantomData<&'a ()> }
impl<'a> LinesIter<'a> {
    pub uninterp spec fn remaining(&self) -> Seq<Seq<char>>;
    #[verifier::external_body]
    pub fn next(&mut self) -> (r: Option<&'a str>)
        ensures
            r is None ==> old(self).remaining().len() == 0 && final(self).remaining() == old(self).remaining(),
            r is Some ==> old(self).remaining().len() > 0 && r->0@ == old(self).remaining()[0]
                && final(self).remaining() == old(self).remaining().skip(1),
    { unimplemented!() }
}
#[verifier::external_body]
pub fn __langs_contains(langs: &[&str], l: &&str) -> (r: bool)
    ensures r == exists|k: int| 0 <= k < langs@.len() && #[trigger] strs_view(langs@)[k] == l@ { langs.contains(l) }
pub uninterp spec fn str_lines_md(text: Seq<char>) -> Seq<Seq<char>>;
#[verifier::external_body]
pub fn __lines_iter<'a>(text: &'a str) -> (r: LinesIter<'a>) ensures r.remaining() == str_lines_md(text@), r.remaining().len() < usize::MAX { unimplemented!() }
