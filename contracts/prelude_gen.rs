// ---- prelude for the generator unit (C09). TRUSTED.
pub uninterp spec fn trim_nl_bytes(b: Seq<u8>) -> Seq<u8>;
#[verifier::external_body]
pub fn __trim_newlines_bytes<'a>(b: &&'a [u8]) -> (r: &'a [u8]) ensures r@ == trim_nl_bytes(b@) { unimplemented!() }
/// Display of an integer: its decimal text
pub uninterp spec fn int_text(i: int) -> Seq<char>;
/// `&x[..]`: the whole slice
#[verifier::external_body]
pub fn __slice_full<'a>(x: &&'a [u8]) -> (r: &'a [u8]) ensures r@ == x@ { &x[..] }
#[verifier::external_body]
pub fn __bytes_ends_with(a: &Vec<u8>, b: &[u8]) -> (r: bool) ensures r == (a@.len() >= b@.len() && a@.subrange(a@.len() - b@.len(), a@.len() as int) == b@) { a.ends_with(b) }
#[verifier::external_body]
pub fn __string_is_empty(s: &String) -> (r: bool) ensures r == (s@.len() == 0) { s.is_empty() }
#[verifier::external_body]
pub fn __string_ends_with_char(s: &String, c: char) -> (r: bool) ensures r == (s@.len() > 0 && s@.last() == c) { s.ends_with(c) }
#[verifier::external_body]
pub fn __vec_full<'a>(x: &'a Vec<u8>) -> (r: &'a [u8]) ensures r@ == x@ { &x[..] }
/// line_parser::extract_exit_code (regex `^\[([0-9]+)\]$` + i32 parse): uninterpreted, as in the parser units
pub uninterp spec fn exit_code_of(line: Seq<char>) -> Option<i32>;
#[verifier::external_body]
pub fn __slice_ends_with(a: &[u8], b: &[u8]) -> (r: bool) ensures r == (a@.len() >= b@.len() && a@.subrange(a@.len() - b@.len(), a@.len() as int) == b@) { a.ends_with(b) }
