#!/usr/bin/env python3
"""apply every /verif/seeded/*/patch.diff to /repo in turn, run the quick check of the listed properties, undo.
usage: tools_seed_matrix.py [seed-name ...] [--props C01,C02]   -> prints a table, writes seeded/RESULTS.json"""
import json, os, subprocess, sys, re
V = "/verif"
args = [a for a in sys.argv[1:] if not a.startswith("--")]
props = None
for a in sys.argv[1:]:
    if a.startswith("--props="):
        props = a[8:].split(",")
man = json.load(open(f"{V}/MANIFEST.json"))
claimed = [c["property_id"] for c in man["checks"]]
seeds = args or sorted(d for d in os.listdir(f"{V}/seeded") if os.path.isdir(f"{V}/seeded/{d}"))
res_path = f"{V}/seeded/RESULTS.json"
results = json.load(open(res_path)) if os.path.exists(res_path) else {}
assert subprocess.run(["git", "-C", "/repo", "status", "--porcelain"], capture_output=True, text=True).stdout.strip() == "", "/repo dirty"
for s in seeds:
    meta = json.load(open(f"{V}/seeded/{s}/meta.json"))
    target = meta["property"]
    r = subprocess.run(["git", "-C", "/repo", "apply", f"{V}/seeded/{s}/patch.diff"], capture_output=True, text=True)
    if r.returncode != 0:
        print(s, "patch does not apply:", r.stderr.strip()[:200]); results[s] = {"apply": False}; continue
    row = {}
    try:
        for p in (props or claimed):
            o = subprocess.run([f"{V}/check", p, "--tier", "quick"], capture_output=True, text=True)
            lines = [l for l in o.stdout.split("\n") if re.match(r"^(PASS|VIOLATION|INCONCLUSIVE|FAILED-OBLIGATION|KNOWN)", l)]
            cl = sorted({m.group(1) for l in lines for m in [re.search(r"clause=(\S+)", l)] if m})
            row[p] = {"exit": o.returncode, "clauses": cl, "line": (lines[-1] if lines else "")[:300]}
    finally:
        subprocess.run(["git", "-C", "/repo", "checkout", "--", "."])
    results[s] = {"target": target, "checks": row}
    print(s, "target", target, " ".join(f"{p}:{'VIOL' if v['exit']==1 else 'pass' if v['exit']==0 else 'INC'}" for p, v in row.items()))
json.dump(results, open(res_path, "w"), indent=1, sort_keys=True)
# evidence files were rewritten by runs on seeded trees: refresh them on the clean tree
for p in (props or claimed):
    subprocess.run([f"{V}/check", p, "--tier", "quick"], capture_output=True, text=True)
