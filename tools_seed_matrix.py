#!/usr/bin/env python3
"""apply every /verif/seeded/*/patch.diff to /repo in turn, run the quick check of the listed properties, undo.
usage: tools_seed_matrix.py [seed-name ...] [--props C01,C02]   -> prints a table, writes seeded/RESULTS.json"""
import json, os, subprocess, sys, re
sys.path.insert(0, "/verif/contracts")
V = "/verif"
args = [a for a in sys.argv[1:] if not a.startswith("--")]
props = None
for a in sys.argv[1:]:
    if a.startswith("--props="):
        props = a[8:].split(",")
man = json.load(open(f"{V}/MANIFEST.json"))
claimed = [c["property_id"] for c in man["checks"]]
AUTO = "--auto" in sys.argv
# --auto: per seed, run the target property's check and every check that reads a file the patch touches (from the evidence of the
# last clean run: functions_under_contract[].file, kani sources); the replay-based cross-checks (C08, C10) read the whole crate and run
# whenever the patch touches parsers / generators / expectation / rules / escaping. Other checks read none of the changed bytes: "untouched".
def files_of(p):
    try:
        ev = json.load(open(f"{V}/evidence/{p}.json"))
    except Exception:
        return None
    fs = {f["file"] for f in ev["coverage"].get("functions_under_contract", [])}
    for h in ev["coverage"].get("kani_harnesses", []) or []:
        fs |= set(h.get("files", []))
    return fs
FILES = {p: files_of(p) for p in claimed}
import glob as _g
from registry import REG as _REG  # noqa
for _p in claimed:
    for _ku in _REG.get(_p, {}).get("kani_units", []):
        for _l in open(f"{V}/contracts/kani/{_ku}.kx"):
            _m = re.match(r"@item (\S+)", _l)
            if _m and FILES.get(_p) is not None:
                FILES[_p].add(_m.group(1))
WHOLE = {"C08": ("src/parsers", "src/expectation.rs", "src/rules", "src/escaping.rs", "src/newline.rs"), "C10": ("src/parsers", "src/generators", "src/expectation.rs", "src/rules", "src/escaping.rs", "src/newline.rs", "src/output.rs", "src/testcase.rs", "src/diff.rs")}
def relevant(p, target, touched):
    if p == target or FILES.get(p) is None:
        return True
    if FILES[p] & touched:
        return True
    return any(t.startswith(pre) for t in touched for pre in WHOLE.get(p, ()))
seeds = args or sorted(d for d in os.listdir(f"{V}/seeded") if os.path.isdir(f"{V}/seeded/{d}"))
res_path = f"{V}/seeded/RESULTS.json"
results = json.load(open(res_path)) if os.path.exists(res_path) else {}
assert subprocess.run(["git", "-C", "/repo", "status", "--porcelain"], capture_output=True, text=True).stdout.strip() == "", "/repo dirty"
for s in seeds:
    meta = json.load(open(f"{V}/seeded/{s}/meta.json"))
    target = meta["property"]
    r = subprocess.run(["git", "-C", "/repo", "apply", f"{V}/seeded/{s}/patch.diff"], capture_output=True, text=True)
    if r.returncode != 0:
        print(s, "patch does not apply:", r.stderr.strip()[:200]); results[s] = {"apply": False}; continue
    row = {}
    touched = set(re.findall(r"^\+\+\+ b/(\S+)", open(f"{V}/seeded/{s}/patch.diff").read(), re.M))
    try:
        for p in (props or claimed):
            if AUTO and not relevant(p, target, touched):
                row[p] = {"exit": 0, "clauses": [], "line": "untouched: this check reads none of the files the patch changes"}
                continue
            o = subprocess.run([f"{V}/check", p, "--tier", "quick"], capture_output=True, text=True, env=dict(os.environ, VERIF_EVIDENCE_DIR="/tmp/verif-seed-evidence"))
            lines = [l for l in o.stdout.split("\n") if re.match(r"^(PASS|VIOLATION|INCONCLUSIVE|FAILED-OBLIGATION|KNOWN)", l)]
            cl = sorted({m.group(1) for l in lines for m in [re.search(r"clause=(\S+)", l)] if m})
            row[p] = {"exit": o.returncode, "clauses": cl, "line": (lines[-1] if lines else "")[:300]}
    finally:
        subprocess.run(["git", "-C", "/repo", "checkout", "--", "."])
    results[s] = {"target": target, "checks": row}
    print(s, "target", target, " ".join(f"{p}:{'VIOL' if v['exit']==1 else 'pass' if v['exit']==0 else 'INC'}" for p, v in row.items()))
json.dump(results, open(res_path, "w"), indent=1, sort_keys=True)
# evidence files were rewritten by runs on seeded trees: refresh them on the clean tree
for p in (props or claimed):
    subprocess.run([f"{V}/check", p, "--tier", "quick"], capture_output=True, text=True)
