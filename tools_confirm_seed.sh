#!/bin/bash
# usage: tools_confirm_seed.sh <seed-dir> [...]  — confirm a seeded change in a scratch worktree of /repo's HEAD:
#  patch applies, suite passes with it, demo fails with it and passes without it. Writes <seed-dir>/confirm.log
WT=/tmp/wt-confirm
git -C /repo worktree remove --force $WT 2>/dev/null
git -C /repo worktree add --detach $WT HEAD -q || exit 3
export CARGO_NET_OFFLINE=true
for D in "$@"; do
  L=$D/confirm.log; : > $L
  cd $WT && git checkout -q -- . && rm -rf examples
  echo "== $D on $(git -C /repo rev-parse --short HEAD)" | tee -a $L
  if ! git apply $D/patch.diff 2>>$L; then echo "RESULT patch-does-not-apply" | tee -a $L; continue; fi
  T=$(cargo nextest run --workspace --no-fail-fast --tool-config-file pb:/w/lib/nextest.toml --profile pb --test-threads 8 --offline 2>&1 | grep -E "Summary|error(\[|:)" | head -3)
  echo "suite-with-change: $T" | tee -a $L
  mkdir -p examples
  if [ -f $D/demo.rs ]; then cp $D/demo.rs examples/demo.rs; else echo "RESULT no-demo.rs" | tee -a $L; git checkout -q -- .; continue; fi
  cargo run --offline --example demo >>$L 2>&1; W=$?
  echo "demo-with-change exit=$W" | tee -a $L
  git checkout -q -- .
  cargo run --offline --example demo >>$L 2>&1; O=$?
  echo "demo-without-change exit=$O" | tee -a $L
  if echo "$T" | grep -q "166 passed" && [ $W -ne 0 ] && [ $O -eq 0 ]; then echo "RESULT confirmed" | tee -a $L; else echo "RESULT NOT-confirmed" | tee -a $L; fi
  rm -rf examples
done
cd / && git -C /repo worktree remove --force $WT
