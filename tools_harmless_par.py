#!/usr/bin/env python3
"""behaviour-preserving edits (seeded_harmless/): same runner as the seed matrix, but the expectation is PASS everywhere; writes seeded_harmless/RESULTS.json
parallel seed matrix: W workers, each with its own scratch worktree of /repo's HEAD (VERIF_REPO), build dir, replay-crate copy and
evidence dir; applies every /verif/seeded/*/patch.diff in turn in its worktree, runs the relevant quick checks (see --auto in
tools_seed_matrix.py), restores the worktree. /repo itself is never touched. Writes seeded/RESULTS.json.
usage: tools_seed_matrix_par.py [-j W] [seed ...]"""
import json, os, re, shutil, subprocess, sys, threading, queue
V = os.environ.get("VERIF_SNAPSHOT", "/verif")
PFX = os.environ.get("VERIF_MATRIX_PREFIX", "/tmp/m")
sys.path.insert(0, V + "/contracts")
from registry import REG  # noqa
args = sys.argv[1:]
W = 4
if "-j" in args:
    i = args.index("-j"); W = int(args[i + 1]); del args[i:i + 2]
man = json.load(open(f"{V}/MANIFEST.json"))
claimed = [c["property_id"] for c in man["checks"]]
SD = "seeded_harmless"
seeds = args or sorted(d for d in os.listdir(f"{V}/{SD}") if os.path.isdir(f"{V}/{SD}/{d}"))
res_path = os.environ.get("VERIF_MATRIX_RESULTS", "/verif/seeded_harmless/RESULTS.json")
results = json.load(open(res_path)) if os.path.exists(res_path) else {}

def files_of(p):
    try:
        ev = json.load(open(f"{V}/evidence/{p}.json"))
    except Exception:
        return None
    fs = {f["file"] for f in ev["coverage"].get("functions_under_contract", [])}
    for ku in REG.get(p, {}).get("kani_units", []):
        for l in open(f"{V}/contracts/kani/{ku}.kx"):
            m = re.match(r"@item (\S+)", l)
            if m:
                fs.add(m.group(1))
    return fs
FILES = {p: files_of(p) for p in claimed}
WHOLE = {"C08": ("src/parsers", "src/expectation.rs", "src/rules", "src/escaping.rs", "src/newline.rs"),
         "C09": ("src/parsers", "src/generators", "src/expectation.rs", "src/rules", "src/escaping.rs", "src/newline.rs", "src/output.rs", "src/testcase.rs", "src/diff.rs", "src/outcome.rs"),
         "C10": ("src/parsers", "src/generators", "src/expectation.rs", "src/rules", "src/escaping.rs", "src/newline.rs", "src/output.rs", "src/testcase.rs", "src/diff.rs")}
def relevant(p, target, touched):
    if p == target or FILES.get(p) is None or FILES[p] & touched:
        return True
    return any(t.startswith(pre) for t in touched for pre in WHOLE.get(p, ()))

def restore(wt):
    """bring the worktree back to HEAD; git operations of parallel workers share /repo/.git and can fail on a lock: retry, then verify"""
    import time
    for _ in range(10):
        a = subprocess.run(["git", "-C", wt, "checkout", "--", "."], capture_output=True)
        b = subprocess.run(["git", "-C", wt, "clean", "-fdq"], capture_output=True)
        st = subprocess.run(["git", "-C", wt, "status", "--porcelain"], capture_output=True, text=True)
        if a.returncode == 0 and b.returncode == 0 and st.returncode == 0 and st.stdout.strip() == "":
            return
        time.sleep(2)
    raise RuntimeError(f"cannot restore {wt}")

q = queue.Queue()
for s in seeds:
    q.put(s)
lock = threading.Lock()

def worker(i):
    import time
    time.sleep(6 * i)  # staggered start: the workers set up their worktrees one after the other
    wt, bd, rc, evd, rp = f"{PFX}w{i}", f"{PFX}b{i}", f"{PFX}r{i}", f"{PFX}e{i}", f"{PFX}p{i}"
    subprocess.run(["git", "-C", "/repo", "worktree", "remove", "--force", wt], capture_output=True)
    assert subprocess.run(["git", "-C", "/repo", "worktree", "add", "--detach", wt, "HEAD", "-q"]).returncode == 0
    shutil.rmtree(rc, ignore_errors=True); os.makedirs(rc)
    shutil.copytree(f"{V}/replay/src", f"{rc}/src")
    shutil.copy(f"{V}/replay/Cargo.lock", f"{rc}/Cargo.lock")
    open(f"{rc}/Cargo.toml", "w").write(open(f"{V}/replay/Cargo.toml").read().replace('path = "/repo"', f'path = "{wt}"'))
    env = dict(os.environ, VERIF_REPO=wt, VERIF_BUILD_DIR=bd, VERIF_REPLAY_CRATE=rc, VERIF_EVIDENCE_DIR=evd, VERIF_REPLAYS_DIR=rp)
    while True:
        try:
            s = q.get_nowait()
        except queue.Empty:
            break
        target = "-"
        patch = open(f"{V}/{SD}/{s}/patch.diff").read()
        touched = set(re.findall(r"^\+\+\+ b/(\S+)", patch, re.M))
        restore(wt)
        r = subprocess.run(["git", "-C", wt, "apply", f"{V}/{SD}/{s}/patch.diff"], capture_output=True, text=True)
        if r.returncode != 0:
            with lock:
                results[s] = {"apply": False}
                print(s, "patch does not apply:", r.stderr.strip()[:200], flush=True)
            continue
        row = {}
        changed = set(subprocess.run(["git", "-C", wt, "diff", "--name-only"], capture_output=True, text=True).stdout.split())
        assert changed == touched, f"worktree differs from HEAD in {changed}, the patch touches {touched}"
        try:
            for p in claimed:
                if not relevant(p, target, touched):
                    row[p] = {"exit": 0, "clauses": [], "line": "untouched: this check reads none of the files the patch changes"}
                    continue
                o = subprocess.run([f"{V}/check", p, "--tier", "quick"], capture_output=True, text=True, env=env)
                lines = [l for l in o.stdout.split("\n") if re.match(r"^(PASS|VIOLATION|INCONCLUSIVE|FAILED-OBLIGATION|KNOWN)", l)]
                cl = sorted({m.group(1) for l in lines for m in [re.search(r"clause=(\S+)", l)] if m})
                row[p] = {"exit": o.returncode, "clauses": cl, "line": (lines[-1] if lines else "")[:300]}
            if subprocess.run(["git", "-C", wt, "diff", "--quiet"]).returncode != 1:
                row = {p: dict(v, line="INVALID ROW: the worktree lost the patch during the run") for p, v in row.items()}
        finally:
            restore(wt)
        with lock:
            results[s] = {"target": target, "checks": row}
            print(s, "target", target, " ".join(f"{p}:{'VIOL' if v['exit']==1 else ('pass' if not v['line'].startswith('untouched') else '-') if v['exit']==0 else 'INC'}" for p, v in row.items()), flush=True)
            json.dump(results, open(res_path, "w"), indent=1, sort_keys=True)
    subprocess.run(["git", "-C", "/repo", "worktree", "remove", "--force", wt], capture_output=True)
    for d in (bd, rc, evd, rp):
        shutil.rmtree(d, ignore_errors=True)

ts = [threading.Thread(target=worker, args=(i,)) for i in range(W)]
for t in ts:
    t.start()
for t in ts:
    t.join()
json.dump(results, open(res_path, "w"), indent=1, sort_keys=True)
