// Round-0 pilot for C16: TestCaseConfig::with_defaults_from (src/config.rs:335-354), rules R7, R13 applied by hand
use vstd::prelude::*;
use std::collections::BTreeMap;
verus! {
#[derive(Clone, PartialEq, Eq, Structural)]
pub enum OutputStreamControl { Stdout, Stderr, Combined }

pub assume_specification<T> [Option::<T>::or] (a: Option<T>, b: Option<T>) -> (r: Option<T>)
    ensures r == (if a is Some { a } else { b });

pub assume_specification<T, F: FnOnce() -> Option<T>> [Option::<T>::or_else] (a: Option<T>, f: F) -> (r: Option<T>)
    requires a is None ==> f.requires(()),
    ensures a is Some ==> r == a, a is None ==> f.ensures((), r);

#[verifier::external_body]
pub fn __btree_chain_collect(a: BTreeMap<String, String>, b: BTreeMap<String, String>) -> (r: BTreeMap<String, String>)
    ensures r@ == a@.union_prefer_right(b@)
{ a.into_iter().chain(b).collect() }

#[verifier::external_body]
pub fn __clone_env(a: &BTreeMap<String, String>) -> (r: BTreeMap<String, String>) ensures r@ == a@ { a.clone() }

pub struct TestCaseConfig {
    pub detached: Option<bool>,
    pub environment: BTreeMap<String, String>,
    pub keep_crlf: Option<bool>,
    pub output_stream: Option<OutputStreamControl>,
    pub skip_document_code: Option<i32>,
    pub strip_ansi_escaping: Option<bool>,
}

pub open spec fn pick<T>(a: Option<T>, b: Option<T>) -> Option<T> { if a is Some { a } else { b } }

impl TestCaseConfig {
    pub fn with_defaults_from(&self, defaults: &Self) -> (r: Self)
        ensures
            r.output_stream == pick(self.output_stream, defaults.output_stream),
            r.keep_crlf == pick(self.keep_crlf, defaults.keep_crlf),
            r.detached == pick(self.detached, defaults.detached),
            r.skip_document_code == pick(self.skip_document_code, defaults.skip_document_code),
            r.strip_ansi_escaping == pick(self.strip_ansi_escaping, defaults.strip_ansi_escaping),
            // [C16.env] per variable: the higher layer (self) wins
            forall|k: String| #![auto] r.environment@.dom().contains(k) <==> (self.environment@.dom().contains(k) || defaults.environment@.dom().contains(k)),
            forall|k: String| #![auto] self.environment@.dom().contains(k) ==> r.environment@[k] == self.environment@[k],
            forall|k: String| #![auto] !self.environment@.dom().contains(k) && defaults.environment@.dom().contains(k) ==> r.environment@[k] == defaults.environment@[k],
    {
        Self {
            output_stream: self
                .output_stream
                .clone()
                .or_else(|| defaults.output_stream.clone()),
            keep_crlf: self.keep_crlf.or(defaults.keep_crlf),
            environment: __btree_chain_collect(__clone_env(&self.environment), __clone_env(&defaults.environment)),
            detached: self.detached.or(defaults.detached),
            skip_document_code: self.skip_document_code.or(defaults.skip_document_code),
            strip_ansi_escaping: self.strip_ansi_escaping.or(defaults.strip_ansi_escaping),
        }
    }
}
} // verus!
fn main() {}
