use vstd::prelude::*;
use vstd::std_specs::iter::IteratorSpec;
verus! {
pub fn probe(escaped: &str)
{
    let mut chars = escaped.chars();
    let ghost r0 = chars.remaining();
    assert(r0 == escaped@);
    assert(chars.obeys_prophetic_iter_laws());
    let n = chars.next();
    assert(n is None ==> r0.len() == 0);
    assert(n is None ==> chars.remaining().len() == 0);
    assert(n is Some ==> r0.len() > 0 && r0[0] == n->0);
    assert(n is Some ==> chars.remaining() == r0.skip(1));
    assert(n is Some ==> chars.remaining() == r0.drop_first());
}
} // verus!
fn main() {}
