use vstd::prelude::*;
use vstd::std_specs::iter::IteratorSpec;
verus! {
pub fn probe(escaped: &str)
{
    let mut chars = escaped.chars();
    let ghost r0 = chars.remaining();
    let ghost d0 = chars.decrease();
    let n = chars.next();
    assert(d0 is Some);
    assert(n is Some ==> chars.decrease() is Some);
    assert(n is Some ==> decreases_to!(d0->0 => chars.decrease()->0));
    assert(n is Some ==> decreases_to!(d0 => chars.decrease()));
}
pub fn copy(escaped: &str) -> (out: String)
    ensures out@ =~= escaped@
{
    let mut chars = escaped.chars();
    let mut out = String::new();
    while let Some(ch) = chars.next() 
        invariant out@ + chars.remaining() =~= escaped@, chars.obeys_prophetic_iter_laws(),
        ensures chars.remaining().len() == 0,
        decreases chars.decrease()->0
    {
        out.push(ch);
    }
    out
}
} // verus!
fn main() {}
