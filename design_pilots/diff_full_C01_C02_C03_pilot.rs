// Round-0 pilot: full body of DiffTool::diff (src/diff.rs:90-247) + peek_* with rewrite rules
// R3, R4, R5, R9, R10 applied by hand, contracts spliced. Checks C02 (conservation) core.
use vstd::prelude::*;
verus! {

pub struct Expectation { pub optional: bool, pub multiline: bool, pub id: u64 }
pub uninterp spec fn spec_matches(e: Expectation, line: Seq<u8>) -> bool;
impl Expectation {
    #[verifier::external_body]
    pub fn matches(&self, line: &[u8]) -> (r: bool) ensures r == spec_matches(*self, line@) { unimplemented!() }
    #[verifier::external_body]
    pub fn to_owned(&self) -> (r: Expectation) ensures r == *self { unimplemented!() }
    #[verifier::external_body]
    pub fn clone(&self) -> (r: Expectation) ensures r == *self { unimplemented!() }
}
pub enum DiffLine {
    MatchedExpectation { index: usize, expectation: Expectation, lines: Vec<(usize, Vec<u8>)> },
    UnmatchedExpectation { index: usize, expectation: Expectation },
    UnexpectedLines { lines: Vec<(usize, Vec<u8>)> },
}
pub assume_specification<T> [<[T] as std::borrow::ToOwned>::to_owned] (s: &[T]) -> (r: std::vec::Vec<T>)
    where T: std::clone::Clone ensures r@ == s@;
pub struct DiffTool { pub expectations: Vec<Expectation> }
enum PeekMatch { NextExpectation(usize), NextLine(usize), None }

// ------------------------------------------------------------------ spec
pub open spec fn is_run(r: Seq<(usize, Vec<u8>)>, out: Seq<&[u8]>, a: int, b: int) -> bool {
    &&& 0 <= a <= b <= out.len()
    &&& r.len() == b - a
    &&& forall|k: int| 0 <= k < r.len() ==> (#[trigger] r[k]).0 == a + k && r[k].1@ == out[a + k]@
}
pub open spec fn d_lines(d: DiffLine) -> Seq<(usize, Vec<u8>)> {
    match d {
        DiffLine::MatchedExpectation { lines, .. } => lines@,
        DiffLine::UnexpectedLines { lines } => lines@,
        _ => Seq::empty(),
    }
}
pub open spec fn last_line(t: Seq<DiffLine>) -> int decreases t.len() {
    if t.len() == 0 { 0 } else { last_line(t.drop_last()) + d_lines(t.last()).len() }
}
pub open spec fn runs_ok(t: Seq<DiffLine>, out: Seq<&[u8]>) -> bool decreases t.len() {
    if t.len() == 0 { true } else {
        runs_ok(t.drop_last(), out) && is_run(d_lines(t.last()), out, last_line(t.drop_last()), last_line(t))
    }
}
pub open spec fn d_exp(d: DiffLine) -> Option<int> {
    match d {
        DiffLine::MatchedExpectation { index, .. } => Some(index as int),
        DiffLine::UnmatchedExpectation { index, .. } => Some(index as int),
        _ => None,
    }
}
pub open spec fn last_exp(t: Seq<DiffLine>) -> int decreases t.len() {
    if t.len() == 0 { 0 } else if d_exp(t.last()) is Some { d_exp(t.last())->0 + 1 } else { last_exp(t.drop_last()) }
}
pub open spec fn all_optional(exps: Seq<Expectation>, a: int, b: int) -> bool {
    forall|k: int| a <= k < b && 0 <= k < exps.len() ==> (#[trigger] exps[k]).optional
}
pub open spec fn exps_ok(t: Seq<DiffLine>, exps: Seq<Expectation>) -> bool decreases t.len() {
    if t.len() == 0 { true } else {
        exps_ok(t.drop_last(), exps) && (d_exp(t.last()) is Some ==> {
            let e = d_exp(t.last())->0;
            last_exp(t.drop_last()) <= e < exps.len() && all_optional(exps, last_exp(t.drop_last()), e)
        })
    }
}
pub open spec fn entry_ok(d: DiffLine, exps: Seq<Expectation>) -> bool {
    match d {
        DiffLine::MatchedExpectation { index, expectation, lines } =>
            index < exps.len() && expectation == exps[index as int] && lines@.len() >= 1
            && (!exps[index as int].multiline ==> lines@.len() == 1)
            && forall|k: int| 0 <= k < lines@.len() ==> spec_matches(exps[index as int], (#[trigger] lines@[k]).1@),
        DiffLine::UnmatchedExpectation { index, expectation } =>
            index < exps.len() && expectation == exps[index as int] && !exps[index as int].optional,
        DiffLine::UnexpectedLines { lines } => lines@.len() >= 1,
    }
}
/// C02: everything the result must satisfy, given the cursors reached
pub open spec fn wf_prefix(t: Seq<DiffLine>, exps: Seq<Expectation>, out: Seq<&[u8]>, ei: int, committed: int) -> bool {
    &&& runs_ok(t, out)
    &&& exps_ok(t, exps)
    &&& forall|p: int| 0 <= p < t.len() ==> entry_ok(#[trigger] t[p], exps)
    &&& last_line(t) == committed
    &&& last_exp(t) <= ei <= exps.len()
    &&& all_optional(exps, last_exp(t), ei)
}
pub proof fn lemma_push(t: Seq<DiffLine>, d: DiffLine, exps: Seq<Expectation>, out: Seq<&[u8]>)
    ensures
        last_line(t.push(d)) == last_line(t) + d_lines(d).len(),
        runs_ok(t.push(d), out) == (runs_ok(t, out) && is_run(d_lines(d), out, last_line(t), last_line(t) + d_lines(d).len())),
        last_exp(t.push(d)) == (if d_exp(d) is Some { d_exp(d)->0 + 1 } else { last_exp(t) }),
        exps_ok(t.push(d), exps) == (exps_ok(t, exps) && (d_exp(d) is Some ==>
            last_exp(t) <= d_exp(d)->0 < exps.len() && all_optional(exps, last_exp(t), d_exp(d)->0))),
{
    assert(t.push(d).drop_last() =~= t);
    assert(t.push(d).last() == d);
}


// ------------------------------------------------------------------ C01: language membership
pub open spec fn acc(exps: Seq<Expectation>, out: Seq<&[u8]>, i: int, used: bool, j: int) -> bool
    decreases exps.len() - i, out.len() - j
{
    if i < 0 || j < 0 || j > out.len() { false }
    else if i >= exps.len() { j == out.len() }
    else {
        ((used || exps[i].optional) && acc(exps, out, i + 1, false, j))
        || (j < out.len() && spec_matches(exps[i], out[j]@) && (!used || exps[i].multiline) && acc(exps, out, i, true, j + 1))
    }
}
pub open spec fn accepts(exps: Seq<Expectation>, out: Seq<&[u8]>) -> bool { acc(exps, out, 0, false, 0) }
pub open spec fn all_matched(t: Seq<DiffLine>) -> bool {
    forall|p: int| 0 <= p < t.len() ==> (#[trigger] t[p]) is MatchedExpectation
}

/// skipping a block of optional expectations
proof fn lemma_skip(exps: Seq<Expectation>, out: Seq<&[u8]>, a: int, b: int, j: int)
    requires 0 <= a <= b <= exps.len(), 0 <= j <= out.len(), all_optional(exps, a, b), acc(exps, out, b, false, j),
    ensures acc(exps, out, a, false, j),
    decreases b - a
{
    if a < b {
        lemma_skip(exps, out, a + 1, b, j);
        assert(exps[a].optional);
    }
}
/// consuming lines [j, b) with expectation e (already used or not), then moving on
proof fn lemma_take(exps: Seq<Expectation>, out: Seq<&[u8]>, e: int, a: int, j: int, b: int)
    requires 0 <= e < exps.len(), 0 <= a <= j <= b <= out.len(), a < b,
        forall|k: int| a <= k < b ==> spec_matches(exps[e], (#[trigger] out[k])@),
        b - a > 1 ==> exps[e].multiline,
        acc(exps, out, e + 1, false, b),
    ensures acc(exps, out, e, j > a, j),
    decreases b - j
{
    if j == b {
        // used, skip to e+1
        assert(acc(exps, out, e, true, b));
    } else {
        lemma_take(exps, out, e, a, j + 1, b);
        assert(spec_matches(exps[e], out[j]@));
        assert(j > a ==> exps[e].multiline);
    }
}
proof fn lemma_prefix_facts(t: Seq<DiffLine>, exps: Seq<Expectation>, out: Seq<&[u8]>, k: int)
    requires 0 <= k <= t.len(), runs_ok(t, out), exps_ok(t, exps),
    ensures runs_ok(t.take(k), out), exps_ok(t.take(k), exps),
    decreases t.len() - k
{
    if k < t.len() {
        assert(t.drop_last().take(k) =~= t.take(k));
        lemma_prefix_facts(t.drop_last(), exps, out, k);
    } else {
        assert(t.take(k) =~= t);
    }
}
/// the main induction: from the cursor after the first k entries, the rest is accepted
proof fn lemma_sound_from(t: Seq<DiffLine>, exps: Seq<Expectation>, out: Seq<&[u8]>, k: int)
    requires 0 <= k <= t.len(), wf_prefix(t, exps, out, exps.len() as int, out.len() as int), all_matched(t),
    ensures acc(exps, out, last_exp(t.take(k)), false, last_line(t.take(k))),
    decreases t.len() - k
{
    lemma_prefix_facts(t, exps, out, k);
    lemma_bounds(t.take(k), exps, out);
    if k == t.len() {
        assert(t.take(k) =~= t);
        lemma_skip(exps, out, last_exp(t), exps.len() as int, out.len() as int);
    } else {
        lemma_sound_from(t, exps, out, k + 1);
        lemma_prefix_facts(t, exps, out, k + 1);
        let p = t.take(k); let q = t.take(k + 1); let d = t[k];
        assert(q.drop_last() =~= p);
        assert(q.last() == d);
        assert(d is MatchedExpectation);
        assert(entry_ok(d, exps));
        let e = d_exp(d)->0;
        let a = last_line(p); let b = last_line(q);
        assert(is_run(d_lines(d), out, a, b));
        assert forall|kk: int| a <= kk < b implies spec_matches(exps[e], (#[trigger] out[kk])@) by {
            assert(d_lines(d)[kk - a].1@ == out[kk]@);
        }
        lemma_take(exps, out, e, a, a, b);
        lemma_skip(exps, out, last_exp(p), e, a);
    }
}
proof fn lemma_bounds(t: Seq<DiffLine>, exps: Seq<Expectation>, out: Seq<&[u8]>)
    requires runs_ok(t, out), exps_ok(t, exps),
    ensures 0 <= last_exp(t) <= exps.len(), 0 <= last_line(t) <= out.len(),
    decreases t.len()
{
    if t.len() > 0 { lemma_bounds(t.drop_last(), exps, out); }
}
pub proof fn lemma_C01_sound(t: Seq<DiffLine>, exps: Seq<Expectation>, out: Seq<&[u8]>)
    requires wf_prefix(t, exps, out, exps.len() as int, out.len() as int), all_matched(t),
    ensures accepts(exps, out),
{
    lemma_sound_from(t, exps, out, 0);
    assert(t.take(0) =~= Seq::<DiffLine>::empty());
}

// ------------------------------------------------------------------ C03: completeness under determinism
pub open spec fn in_next(exps: Seq<Expectation>, i: int, used: bool, k: int) -> bool {
    0 <= i < exps.len() && (
        (k == i && (!used || exps[i].multiline))
        || (i < k < exps.len() && (used || exps[i].optional) && all_optional(exps, i + 1, k)))
}
pub open spec fn deterministic(exps: Seq<Expectation>, out: Seq<&[u8]>) -> bool {
    forall|i: int, used: bool, j: int, k1: int, k2: int|
        0 <= j < out.len() && #[trigger] in_next(exps, i, used, k1) && #[trigger] in_next(exps, i, used, k2)
        && #[trigger] spec_matches(exps[k1], out[j]@) && spec_matches(exps[k2], out[j]@) ==> k1 == k2
}
proof fn lemma_det(exps: Seq<Expectation>, out: Seq<&[u8]>, i: int, used: bool, j: int, k1: int, k2: int)
    requires deterministic(exps, out), 0 <= j < out.len(), in_next(exps, i, used, k1), in_next(exps, i, used, k2),
        spec_matches(exps[k1], out[j]@), spec_matches(exps[k2], out[j]@),
    ensures k1 == k2
{}
proof fn lemma_next(exps: Seq<Expectation>, out: Seq<&[u8]>, i: int, j: int) -> (t: int)
    requires acc(exps, out, i, false, j), 0 <= i, 0 <= j < out.len(),
    ensures i <= t < exps.len(), all_optional(exps, i, t), spec_matches(exps[t], out[j]@), acc(exps, out, t, true, j + 1),
    decreases exps.len() - i
{
    if spec_matches(exps[i], out[j]@) && acc(exps, out, i, true, j + 1) { i }
    else { let t = lemma_next(exps, out, i + 1, j); t }
}
proof fn lemma_tail_optional(exps: Seq<Expectation>, out: Seq<&[u8]>, i: int)
    requires acc(exps, out, i, false, out.len() as int), 0 <= i <= exps.len(),
    ensures all_optional(exps, i, exps.len() as int),
    decreases exps.len() - i
{
    if i < exps.len() { lemma_tail_optional(exps, out, i + 1); }
}
proof fn lemma_case_take(exps: Seq<Expectation>, out: Seq<&[u8]>, ei: int, used: bool, li: int)
    requires deterministic(exps, out), acc(exps, out, ei, used, li), 0 <= ei < exps.len(), 0 <= li < out.len(),
        spec_matches(exps[ei], out[li]@), !used || exps[ei].multiline,
    ensures acc(exps, out, ei, true, li + 1),
{
    if (used || exps[ei].optional) && acc(exps, out, ei + 1, false, li) {
        if !(spec_matches(exps[ei], out[li]@) && (!used || exps[ei].multiline) && acc(exps, out, ei, true, li + 1)) {
            let t = lemma_next(exps, out, ei + 1, li);
            assert(in_next(exps, ei, used, t));
            assert(in_next(exps, ei, used, ei));
            lemma_det(exps, out, ei, used, li, t, ei);
        }
    }
}
proof fn lemma_case_yield_absurd(exps: Seq<Expectation>, out: Seq<&[u8]>, ei: int, used: bool, li: int)
    requires deterministic(exps, out), 0 <= ei, ei + 1 < exps.len(), 0 <= li < out.len(),
        spec_matches(exps[ei], out[li]@), spec_matches(exps[ei + 1], out[li]@), exps[ei].multiline, used || exps[ei].optional,
    ensures false,
{
    assert(in_next(exps, ei, used, ei));
    assert(in_next(exps, ei, used, ei + 1));
    lemma_det(exps, out, ei, used, li, ei, ei + 1);
}
proof fn lemma_case_peek(exps: Seq<Expectation>, out: Seq<&[u8]>, ei: int, li: int, k: int)
    requires deterministic(exps, out), acc(exps, out, ei, false, li), 0 <= ei < exps.len(), 0 <= li < out.len(),
        !spec_matches(exps[ei], out[li]@), ei < k < exps.len(), spec_matches(exps[k], out[li]@),
        forall|x: int| ei < x < k ==> !spec_matches(#[trigger] exps[x], out[li]@),
    ensures all_optional(exps, ei, k), acc(exps, out, k, false, li),
{
    let t = lemma_next(exps, out, ei + 1, li);
    assert(exps[ei].optional);
    if t < k { assert(!spec_matches(exps[t], out[li]@)); }
    if k < t {
        assert(in_next(exps, ei, false, t));
        assert(in_next(exps, ei, false, k));
        lemma_det(exps, out, ei, false, li, t, k);
    }
}
proof fn lemma_case_nopeek(exps: Seq<Expectation>, out: Seq<&[u8]>, ei: int, li: int)
    requires acc(exps, out, ei, false, li), 0 <= ei < exps.len(), 0 <= li < out.len(),
        !spec_matches(exps[ei], out[li]@),
        forall|x: int| ei < x < exps.len() ==> !spec_matches(#[trigger] exps[x], out[li]@),
    ensures false,
{
    let t = lemma_next(exps, out, ei + 1, li);
}
proof fn lemma_all_matched_push(t: Seq<DiffLine>, d: DiffLine)
    requires all_matched(t), d is MatchedExpectation,
    ensures all_matched(t.push(d)),
{
    assert forall|p: int| 0 <= p < t.push(d).len() implies (#[trigger] t.push(d)[p]) is MatchedExpectation by {
        if p < t.len() { assert(t.push(d)[p] == t[p]); }
    }
}
/// what the loop maintains for C03
pub open spec fn c03_inv(t: Seq<DiffLine>, exps: Seq<Expectation>, out: Seq<&[u8]>, ei: int, used: bool, li: int) -> bool {
    (deterministic(exps, out) && accepts(exps, out)) ==> (all_matched(t) && acc(exps, out, ei, used, li))
}

// ------------------------------------------------------------------ code
// R4: generated from closure `|i| -> (usize, Vec<u8>) { (i, lines[i].to_owned()) }`
fn __map_collect_0(lines: &Vec<&[u8]>, a: usize, b: usize) -> (r: Vec<(usize, Vec<u8>)>)
    requires a <= b <= lines@.len()
    ensures is_run(r@, lines@, a as int, b as int)
{
    let mut v: Vec<(usize, Vec<u8>)> = Vec::new();
    for i in a..b
        invariant a <= b <= lines@.len(), is_run(v@, lines@, a as int, i as int)
    {
        v.push((i, lines[i].to_owned()));
    }
    v
}

impl DiffTool {
    // R5
    fn peek_matching_line(&self, expectation: &Expectation, start_line_index: usize, lines: &Vec<&[u8]>) -> (r: Option<usize>)
        ensures
            r is Some ==> start_line_index <= r->0 < lines@.len() && spec_matches(*expectation, lines@[r->0 as int]@),
    {
        let mut i = start_line_index;
        while i < lines.len()
            invariant start_line_index <= i,
            decreases lines.len() - i
        {
            let line = &lines[i];
            if expectation.matches(line) { return Some(i); }
            i += 1;
        }
        None
    }
    // R5
    fn peek_matching_expectation(&self, line: &[u8], start_expectation_index: usize) -> (r: Option<usize>)
        ensures
            r is Some ==> start_expectation_index <= r->0 < self.expectations@.len() && spec_matches(self.expectations@[r->0 as int], line@)
                && forall|x: int| start_expectation_index <= x < r->0 ==> !spec_matches(#[trigger] self.expectations@[x], line@),
            r is None ==> forall|x: int| start_expectation_index <= x < self.expectations@.len() ==> !spec_matches(#[trigger] self.expectations@[x], line@),
    {
        let mut i = start_expectation_index;
        while i < self.expectations.len()
            invariant start_expectation_index <= i,
                forall|x: int| start_expectation_index <= x < i && x < self.expectations@.len() ==> !spec_matches(#[trigger] self.expectations@[x], line@),
            decreases self.expectations.len() - i
        {
            let expectation = &self.expectations[i];
            if expectation.matches(line) { return Some(i); }
            i += 1;
        }
        None
    }

    fn peek_match(&self, current_line_index: usize, lines: &Vec<&[u8]>, current_expectation_index: usize) -> (r: PeekMatch)
        requires current_line_index < lines.len(), current_expectation_index < self.expectations.len(),
        ensures match r {
            PeekMatch::NextExpectation(k) => current_expectation_index < k < self.expectations@.len()
                && spec_matches(self.expectations@[k as int], lines@[current_line_index as int]@)
                && forall|x: int| current_expectation_index < x < k ==> !spec_matches(#[trigger] self.expectations@[x], lines@[current_line_index as int]@),
            PeekMatch::NextLine(l) => current_line_index < l < lines@.len()
                && spec_matches(self.expectations@[current_expectation_index as int], lines@[l as int]@)
                && forall|x: int| current_expectation_index < x < self.expectations@.len() ==> !spec_matches(#[trigger] self.expectations@[x], lines@[current_line_index as int]@),
            PeekMatch::None => forall|x: int| current_expectation_index < x < self.expectations@.len() ==> !spec_matches(#[trigger] self.expectations@[x], lines@[current_line_index as int]@),
        }
    {
        let expectation_index = self
            .peek_matching_expectation(lines[current_line_index], current_expectation_index + 1);
        if let Some(expectation_index) = expectation_index {
            return PeekMatch::NextExpectation(expectation_index);
        }
        let line_index = self.peek_matching_line(
            &self.expectations[current_expectation_index],
            current_line_index + 1,
            lines,
        );
        if let Some(line_index) = line_index {
            return PeekMatch::NextLine(line_index);
        }
        PeekMatch::None
    }

    pub fn diff(&self, lines: Vec<&[u8]>) -> (diffs: Vec<DiffLine>)
        ensures wf_prefix(diffs@, self.expectations@, lines@, self.expectations@.len() as int, lines@.len() as int),
            all_matched(diffs@) ==> accepts(self.expectations@, lines@),
            deterministic(self.expectations@, lines@) && accepts(self.expectations@, lines@) ==> all_matched(diffs@),
    {
        let mut expectation_index: usize = 0;
        let mut line_index: usize = 0;
        let mut diffs: Vec<DiffLine> = vec![];
        let mut match_start: Option<usize> = None;

        while expectation_index < self.expectations.len() && line_index < lines.len()
            invariant
                line_index <= lines.len(),
                match_start is Some ==> match_start->0 < line_index && expectation_index < self.expectations.len()
                    && self.expectations@[expectation_index as int].multiline
                    && forall|k: int| match_start->0 <= k < line_index ==> spec_matches(self.expectations@[expectation_index as int], (#[trigger] lines@[k])@),
                wf_prefix(diffs@, self.expectations@, lines@, expectation_index as int,
                    (if match_start is Some { match_start->0 } else { line_index }) as int),
                c03_inv(diffs@, self.expectations@, lines@, expectation_index as int, match_start is Some, line_index as int),
            decreases (self.expectations.len() - expectation_index) + (lines.len() - line_index)
        {
            let expectation = &self.expectations[expectation_index];
            let next_expectation = self.expectations.get(expectation_index + 1);
            let line = lines[line_index];
            let ghost hyp = deterministic(self.expectations@, lines@) && accepts(self.expectations@, lines@);
            let ghost used = match_start is Some;
            let ghost ei = expectation_index as int;
            let ghost li = line_index as int;

            if expectation.matches(line) {
                if expectation.multiline {
                    if let Some(next_expectation) = next_expectation {
                        if (expectation.optional || match_start.is_some())
                            && next_expectation.matches(line)
                        {
                            proof { if hyp { lemma_case_yield_absurd(self.expectations@, lines@, ei, used, li); } }
                            if let Some(match_start_index) = match_start {
                                let ghost __d = diffs@;
                                diffs.push(DiffLine::MatchedExpectation {
                                    index: expectation_index,
                                    expectation: expectation.to_owned(),
                                    lines: __map_collect_0(&lines, match_start_index, line_index),
                                });
                                proof { lemma_push(__d, diffs@.last(), self.expectations@, lines@); }
                            }
                            expectation_index += 1;
                            match_start = None;
                            continue;
                        }
                    }
                    proof { if hyp { lemma_case_take(self.expectations@, lines@, ei, used, li); } }
                    if match_start.is_none() {
                        match_start = Some(line_index);
                    }
                    line_index += 1;
                    continue;
                }
                let ghost __d = diffs@;
                diffs.push(DiffLine::MatchedExpectation {
                    index: expectation_index,
                    expectation: expectation.to_owned(),
                    lines: vec![(line_index, line.to_owned())],
                });
                proof { lemma_push(__d, diffs@.last(), self.expectations@, lines@); }
                proof { if hyp { lemma_case_take(self.expectations@, lines@, ei, false, li);
                    assert(all_matched(diffs@)) by { assert forall|p: int| 0 <= p < diffs@.len() implies (#[trigger] diffs@[p]) is MatchedExpectation by { if p < __d.len() { assert(diffs@[p] == __d[p]); } } } } }
                line_index += 1;
                expectation_index += 1;
                continue;
            }
            if let Some(match_start_index) = match_start {
                let ghost __d = diffs@;
                diffs.push(DiffLine::MatchedExpectation {
                    index: expectation_index,
                    expectation: expectation.to_owned(),
                    lines: __map_collect_0(&lines, match_start_index, line_index),
                });
                proof { lemma_push(__d, diffs@.last(), self.expectations@, lines@); }
                match_start = None;
                expectation_index += 1;
                continue;
            }
            match_start = None;

            match self.peek_match(line_index, &lines, expectation_index) {
                PeekMatch::NextExpectation(next_expectation_index) => {
                    proof { if hyp { lemma_case_peek(self.expectations@, lines@, ei, li, next_expectation_index as int); } }
                    // R3
                    for index in expectation_index..next_expectation_index
                        invariant
                            hyp ==> all_matched(diffs@) && all_optional(self.expectations@, expectation_index as int, next_expectation_index as int),
                            expectation_index <= next_expectation_index < self.expectations@.len(),
                            wf_prefix(diffs@, self.expectations@, lines@, index as int, line_index as int),
                    {
                        if !self.expectations[index].optional {
                            let ghost __d = diffs@;
                            diffs.push(DiffLine::UnmatchedExpectation {
                                index,
                                expectation: self.expectations[index].clone(),
                            });
                            proof { lemma_push(__d, diffs@.last(), self.expectations@, lines@); }
                        }
                    }
                    expectation_index = next_expectation_index;
                }
                PeekMatch::NextLine(next_line_index) => {
                    proof { if hyp { lemma_case_nopeek(self.expectations@, lines@, ei, li); } }
                    let ghost __d = diffs@;
                    diffs.push(DiffLine::UnexpectedLines {
                        lines: __map_collect_0(&lines, line_index, next_line_index),
                    });
                    proof { lemma_push(__d, diffs@.last(), self.expectations@, lines@); }
                    line_index = next_line_index;
                }
                PeekMatch::None => {
                    proof { if hyp { lemma_case_nopeek(self.expectations@, lines@, ei, li); } }
                    if !expectation.optional {
                        let ghost __d = diffs@;
                        diffs.push(DiffLine::UnmatchedExpectation {
                            index: expectation_index,
                            expectation: expectation.to_owned(),
                        });
                        proof { lemma_push(__d, diffs@.last(), self.expectations@, lines@); }
                    }
                    expectation_index += 1;
                }
            }
        }

        let ghost hyp = deterministic(self.expectations@, lines@) && accepts(self.expectations@, lines@);
        if let Some(match_start) = match_start {
            let ghost __d = diffs@;
            diffs.push(DiffLine::MatchedExpectation {
                index: expectation_index,
                expectation: self.expectations[expectation_index].to_owned(),
                lines: __map_collect_0(&lines, match_start, line_index),
            });
            proof { lemma_push(__d, diffs@.last(), self.expectations@, lines@); }
            proof { if hyp { lemma_all_matched_push(__d, diffs@.last()); } }
            expectation_index += 1;
        }
        proof {
            if hyp {
                assert(acc(self.expectations@, lines@, expectation_index as int, false, line_index as int));
                if line_index as int == lines@.len() { lemma_tail_optional(self.expectations@, lines@, expectation_index as int); }
            }
        }

        if expectation_index < self.expectations.len() {
            // R3
            for index in expectation_index..self.expectations.len()
                invariant
                    hyp ==> all_matched(diffs@) && line_index == lines@.len() && all_optional(self.expectations@, expectation_index as int, self.expectations@.len() as int),
                    expectation_index <= self.expectations@.len(),
                    wf_prefix(diffs@, self.expectations@, lines@, index as int, line_index as int),
            {
                if !self.expectations[index].optional {
                    let ghost __d = diffs@;
                    diffs.push(DiffLine::UnmatchedExpectation {
                        index,
                        expectation: self.expectations[index].to_owned(),
                    });
                    proof { lemma_push(__d, diffs@.last(), self.expectations@, lines@); }
                }
            }
        }

        if line_index < lines.len() {
            let ghost __d = diffs@;
            diffs.push(DiffLine::UnexpectedLines {
                lines: __map_collect_0(&lines, line_index, lines.len()),
            });
            proof { lemma_push(__d, diffs@.last(), self.expectations@, lines@); }
        }

        proof { if all_matched(diffs@) { lemma_C01_sound(diffs@, self.expectations@, lines@); } }
        diffs
    }
}

} // verus!
fn main() {}
