use std::sync::Arc;
use std::collections::BTreeMap;
use scrut::expectation::ExpectationMaker;
use scrut::rules::registry::RuleRegistry;
use scrut::parsers::markdown::{MarkdownParser, DEFAULT_MARKDOWN_LANGUAGES};
use scrut::parsers::parser::Parser;
use scrut::escaping::Escaper;
use scrut::config::TestCaseConfig;
use scrut::testcase::TestCase;
use scrut::output::{Output, ExitStatus};

fn guard<F: FnOnce() -> String + std::panic::UnwindSafe>(name: &str, f: F) {
    match std::panic::catch_unwind(f) {
        Ok(s) => println!("[{name}] {s}"),
        Err(_) => println!("[{name}] PANIC"),
    }
}

fn main() {
    std::panic::set_hook(Box::new(|_| {}));
    let maker = || ExpectationMaker::new(RuleRegistry::default());
    // C04 regex alternation anchoring
    guard("C04 regex a|b vs 'ax'", || { let e = maker().parse("a|b (regex)").unwrap(); format!("{}", e.matches(b"ax\n")) });
    guard("C04 regex a|b vs 'xb'", || { let e = maker().parse("a|b (regex)").unwrap(); format!("{}", e.matches(b"xb\n")) });
    // C08 newline in line
    guard("C08 parse 'foo\\n'", || { format!("{:?}", maker().parse("foo\n").map(|e| e.to_string())) });
    guard("C08 parse 'foo ()'", || { format!("{:?}", maker().parse("foo ()").map(|e| e.unmake())) });
    // C11 unicode escaper backslash
    guard("C11 unicode '\\\\t\\0'", || { let raw = b"a\\tb\x00\n"; let txt = Escaper::Unicode.escaped_expectation(raw); let e = maker().parse(&txt).unwrap(); format!("{txt:?} matches={}", e.matches(raw)) });
    guard("C11 ascii '\\\\t\\0'", || { let raw = b"a\\tb\x00\n"; let txt = Escaper::Ascii.escaped_expectation(raw); let e = maker().parse(&txt).unwrap(); format!("{txt:?} matches={}", e.matches(raw)) });
    // C06
    let parser = MarkdownParser::new(Arc::new(maker()), DEFAULT_MARKDOWN_LANGUAGES, None);
    guard("C06 empty scrut block", || format!("{:?}", parser.parse("# t\n\n```scrut\n```\n").map(|r| r.1.len())));
    guard("C06 multibyte info", || format!("{:?}", parser.parse("```日{\n```\n").map(|r| r.1.len())));
    guard("C06 two-backtick line", || format!("{:?}", parser.parse("``code`` is inline\n\n```scrut\n$ echo a\na\n```\n").map(|r| r.1.len())));
    guard("C06 unterminated fence", || format!("{:?}", parser.parse("```scrut\n$ echo a\na\n```\n\n```scrut\n$ echo b\nb\n").map(|r| r.1.len())));
    guard("C06 unterminated foreign", || format!("{:?}", parser.parse("```bash\nfoo\n\n```scrut\n$ echo b\nb\n```\n").map(|r| r.1.len())));
    // C16 env precedence
    guard("C16 env", || { let mut a = TestCaseConfig::empty(); a.environment.insert("K".into(), "testcase".into()); let mut d = TestCaseConfig::empty(); d.environment.insert("K".into(), "default".into()); format!("{:?}", a.with_defaults_from(&d).environment) });
    // C05 unknown exit
    guard("C05 unknown exit passes", || { let tc = TestCase { shell_expression: "x".into(), ..Default::default() }; let out = Output { exit_code: ExitStatus::Unknown, ..Default::default() }; format!("{:?}", tc.validate(&out).is_ok()) });
    let _ = BTreeMap::<String,String>::new();
}
