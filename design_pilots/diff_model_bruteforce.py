# transliteration of DiffTool::diff (src/diff.rs) for checking the hand analysis of C01-C03
import itertools, functools, sys
def diff(E, M, m):
    # E: list of (optional, multiline); M[i][j] match matrix; m lines
    n=len(E); ei=0; li=0; D=[]; ms=None
    def pme(line, s):
        for k in range(s, n):
            if M[k][line]: return k
        return None
    def pml(e, s):
        for k in range(s, m):
            if M[e][k]: return k
        return None
    while ei<n and li<m:
        opt,mul=E[ei]
        if M[ei][li]:
            if mul:
                if ei+1<n:
                    if (opt or ms is not None) and M[ei+1][li]:
                        if ms is not None: D.append(('M',ei,list(range(ms,li))))
                        ei+=1; ms=None; continue
                if ms is None: ms=li
                li+=1; continue
            D.append(('M',ei,[li])); li+=1; ei+=1; continue
        if ms is not None:
            D.append(('M',ei,list(range(ms,li)))); ms=None; ei+=1; continue
        ms=None
        k=pme(li, ei+1)
        if k is not None:
            for idx in range(ei,k):
                if not E[idx][0]: D.append(('U',idx))
            ei=k
        else:
            l=pml(ei, li+1)
            if l is not None:
                D.append(('X',list(range(li,l)))); li=l
            else:
                if not opt: D.append(('U',ei))
                ei+=1
    if ms is not None:
        D.append(('M',ei,list(range(ms,li)))); ei+=1
    if ei<n:
        for idx in range(ei,n):
            if not E[idx][0]: D.append(('U',idx))
    if li<m: D.append(('X',list(range(li,m))))
    return D
def accepts(E,M,m):
    n=len(E)
    @functools.lru_cache(None)
    def acc(i,used,j):
        if i==n: return j==m
        if (used or E[i][0]) and acc(i+1,False,j): return True
        if j<m and M[i][j] and (not used or E[i][1]) and acc(i,True,j+1): return True
        return False
    return acc(0,False,0)
def deterministic(E,M,m):
    n=len(E)
    for i in range(n):
        for used in (False,True):
            nxt=[]
            if (not used) or E[i][1]: nxt.append(i)
            if used or E[i][0]:
                k=i+1
                while k<n:
                    nxt.append(k)
                    if not E[k][0]: break
                    k+=1
            for j in range(m):
                if sum(1 for k in nxt if M[k][j])>1: return False
    return True
def wf(D,E,M,m):
    lines=[]; last=-1
    seen=set()
    for d in D:
        if d[0]=='M':
            _,e,ls=d
            if not ls: return 'empty M'
            if not E[e][1] and len(ls)!=1: return 'non-multiline >1'
            if any(not M[e][l] for l in ls): return 'M not matching'
            if e<=last: return 'order'
            if any(not E[k][0] for k in range(last+1,e)): return 'skipped non-optional'
            last=e; lines+=ls
        elif d[0]=='U':
            _,e=d
            if E[e][0]: return 'U optional'
            if e<=last: return 'order'
            if any(not E[k][0] for k in range(last+1,e)): return 'skipped non-optional'
            last=e
        else:
            if not d[1]: return 'empty X'
            lines+=d[1]
    if any(not E[k][0] for k in range(last+1,len(E))): return 'tail non-optional'
    if lines!=list(range(m)): return 'lines %r'%lines
    return None
Q=[(False,False),(True,False),(True,True),(False,True)]
N=int(sys.argv[1]); MM=int(sys.argv[2])
cnt=0; bad={'C01':0,'C02':0,'C03':0}; ex={}
for n in range(0,N+1):
  for E in itertools.product(Q,repeat=n):
    for m in range(0,MM+1):
      for bits in itertools.product((0,1),repeat=n*m):
        M=[bits[i*m:(i+1)*m] for i in range(n)]
        D=diff(E,M,m); cnt+=1
        w=wf(D,E,M,m)
        hd=any(d[0]!='M' for d in D)
        a=accepts(tuple(E),tuple(map(tuple,M)),m) if True else None
        if w: bad['C02']+=1; ex.setdefault('C02',(E,M,m,D,w))
        if not hd and not a: bad['C01']+=1; ex.setdefault('C01',(E,M,m,D))
        if deterministic(E,M,m) and a and hd: bad['C03']+=1; ex.setdefault('C03',(E,M,m,D))
print(cnt,bad); 
for k,v in ex.items(): print(k,v)
