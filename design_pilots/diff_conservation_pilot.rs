use vstd::prelude::*;
verus! {

pub struct Expectation {
    pub optional: bool,
    pub multiline: bool,
    pub id: u64,
}

pub uninterp spec fn spec_matches(e: Expectation, line: Seq<u8>) -> bool;

impl Expectation {
    #[verifier::external_body]
    pub fn matches(&self, line: &[u8]) -> (r: bool)
        ensures r == spec_matches(*self, line@)
    { unimplemented!() }

    #[verifier::external_body]
    pub fn to_owned(&self) -> (r: Expectation)
        ensures r == *self
    { unimplemented!() }
}

pub enum DiffLine {
    MatchedExpectation { index: usize, expectation: Expectation, lines: Vec<(usize, Vec<u8>)> },
    UnmatchedExpectation { index: usize, expectation: Expectation },
    UnexpectedLines { lines: Vec<(usize, Vec<u8>)> },
}

pub assume_specification<T> [<[T] as std::borrow::ToOwned>::to_owned] (s: &[T]) -> (r: std::vec::Vec<T>)
    where T: std::clone::Clone
    ensures r@ == s@;


pub open spec fn is_run(r: Seq<(usize, Vec<u8>)>, out: Seq<&[u8]>, a: int, b: int) -> bool {
    &&& 0 <= a <= b <= out.len()
    &&& r.len() == b - a
    &&& forall|k: int| 0 <= k < r.len() ==> (#[trigger] r[k]).0 == a + k && r[k].1@ == out[a + k]@
}
pub open spec fn d_lines(d: DiffLine) -> Seq<(usize, Vec<u8>)> {
    match d {
        DiffLine::MatchedExpectation { lines, .. } => lines@,
        DiffLine::UnexpectedLines { lines } => lines@,
        _ => Seq::empty(),
    }
}
/// number of output lines accounted for by the entries
pub open spec fn last_line(t: Seq<DiffLine>) -> int decreases t.len() {
    if t.len() == 0 { 0 } else { last_line(t.drop_last()) + d_lines(t.last()).len() }
}
/// every line-bearing entry is the run starting where the previous ones ended
pub open spec fn runs_ok(t: Seq<DiffLine>, out: Seq<&[u8]>) -> bool decreases t.len() {
    if t.len() == 0 { true } else {
        runs_ok(t.drop_last(), out) && is_run(d_lines(t.last()), out, last_line(t.drop_last()), last_line(t))
    }
}
pub open spec fn entry_ok(d: DiffLine, exps: Seq<Expectation>, out: Seq<&[u8]>) -> bool {
    match d {
        DiffLine::MatchedExpectation { index, expectation, lines } =>
            index < exps.len() && expectation == exps[index as int] && lines@.len() >= 1
            && (!exps[index as int].multiline ==> lines@.len() == 1)
            && forall|k: int| 0 <= k < lines@.len() ==> spec_matches(exps[index as int], (#[trigger] lines@[k]).1@),
        DiffLine::UnmatchedExpectation { index, expectation } =>
            index < exps.len() && expectation == exps[index as int] && !exps[index as int].optional,
        DiffLine::UnexpectedLines { lines } => lines@.len() >= 1,
    }
}
pub broadcast proof fn lemma_push_ll(t: Seq<DiffLine>, d: DiffLine)
    ensures #[trigger] last_line(t.push(d)) == last_line(t) + d_lines(d).len(),
{
    assert(t.push(d).drop_last() =~= t);
}
pub broadcast proof fn lemma_push(t: Seq<DiffLine>, d: DiffLine, out: Seq<&[u8]>)
    ensures 
            #[trigger] runs_ok(t.push(d), out) == (runs_ok(t, out) && is_run(d_lines(d), out, last_line(t), last_line(t) + d_lines(d).len())),
{
    lemma_push_ll(t, d);
    assert(t.push(d).drop_last() =~= t);
}

pub struct DiffTool { pub expectations: Vec<Expectation> }

#[verifier::external_body]
fn to_output_list_range(lines: &Vec<&[u8]>, a: usize, b: usize) -> (r: Vec<(usize, Vec<u8>)>)
    requires a <= b <= lines@.len()
    ensures r@.len() == b - a,
      forall|k: int| 0 <= k < r@.len() ==> (#[trigger] r@[k]).0 == a + k && r@[k].1@ == lines@[a + k]@
{ unimplemented!() }

impl DiffTool {
    pub fn diff(&self, lines: Vec<&[u8]>) -> (diffs: Vec<DiffLine>)
        ensures runs_ok(diffs@, lines@),
            forall|p: int| 0 <= p < diffs@.len() ==> entry_ok(#[trigger] diffs@[p], self.expectations@, lines@),
    {
        broadcast use lemma_push, lemma_push_ll;
        let mut expectation_index: usize = 0;
        let mut line_index: usize = 0;
        let mut diffs: Vec<DiffLine> = vec![];
        let mut match_start: Option<usize> = None;

        while expectation_index < self.expectations.len() && line_index < lines.len()
            invariant
                expectation_index <= self.expectations.len(),
                line_index <= lines.len(),
                match_start is Some ==> match_start->0 < line_index && expectation_index < self.expectations.len()
                    && self.expectations@[expectation_index as int].multiline
                    && forall|k: int| match_start->0 <= k < line_index ==> spec_matches(self.expectations@[expectation_index as int], (#[trigger] lines@[k])@),
                last_line(diffs@) == (if match_start is Some { match_start->0 } else { line_index }),
                runs_ok(diffs@, lines@),
                forall|p: int| 0 <= p < diffs@.len() ==> entry_ok(#[trigger] diffs@[p], self.expectations@, lines@),
            decreases (self.expectations.len() - expectation_index) + (lines.len() - line_index)
        {
            let expectation = &self.expectations[expectation_index];
            let next_expectation = self.expectations.get(expectation_index + 1);
            let line = lines[line_index];

            if expectation.matches(line) {
                if expectation.multiline {
                    if let Some(next_expectation) = next_expectation {
                        if (expectation.optional || match_start.is_some())
                            && next_expectation.matches(line)
                        {
                            if let Some(match_start_index) = match_start {
                                diffs.push(DiffLine::MatchedExpectation {
                                    index: expectation_index,
                                    expectation: expectation.to_owned(),
                                    lines: to_output_list_range(&lines, match_start_index, line_index),
                                });
                            }
                            expectation_index += 1;
                            match_start = None;
                            continue;
                        }
                    }
                    if match_start.is_none() {
                        match_start = Some(line_index);
                    }
                    line_index += 1;
                    continue;
                }
                diffs.push(DiffLine::MatchedExpectation {
                    index: expectation_index,
                    expectation: expectation.to_owned(),
                    lines: vec![(line_index, line.to_owned())],
                });
                line_index += 1;
                expectation_index += 1;
                continue;
            }
            if let Some(match_start_index) = match_start {
                diffs.push(DiffLine::MatchedExpectation {
                    index: expectation_index,
                    expectation: expectation.to_owned(),
                    lines: to_output_list_range(&lines, match_start_index, line_index),
                });
                match_start = None;
                expectation_index += 1;
                continue;
            }
            match_start = None;
            expectation_index += 1;
        }
        diffs
    }
}

} // verus!
fn main() {}
