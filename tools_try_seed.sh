#!/bin/bash
# usage: tools_try_seed.sh <patch.diff> <prop>...   — apply a seeded change to /repo, run the quick checks, undo
set -u
P=$1; shift
git -C /repo apply "$P" || { echo "patch does not apply"; exit 3; }
for prop in "$@"; do
  /verif/check $prop --tier quick 2>&1 | grep -E "^(PASS|VIOLATION|INCONCLUSIVE|FAILED-OBLIGATION|KNOWN)" 
  echo "  -> $prop exit=${PIPESTATUS[0]}"
done
git -C /repo checkout -- .
git -C /repo status --short | head -3
