//! verif-replay: bounded enumerators and axiom validators over the real scrut crate (public API only).
//!
//! usage: verif-replay <cmd> [args]      -> one JSON object on stdout
//!   axioms                     validate every assumed fact of contracts/lemmas/*.rs + prelude helpers against the real functions
//!   diff <C01|C02|C03|all> [max_exp] [max_lines]    enumerate expectation lists x outputs, compare DiffTool::diff with the spec
//!   diff-one <json>            re-run one recorded diff case
//!   escape <ascii|unicode|both> [maxlen]            enumerate byte strings, check C11 (printable + reads back) and C04-escaped
//!   config                     enumerate {unset,A,B} assignments over the config layers (C16)
//!   validate                   enumerate exit statuses x streams x expectations (C05)
use std::collections::BTreeMap;
use std::fmt::Write as _;

use scrut::config::{DocumentConfig, OutputStreamControl, TestCaseConfig};
use scrut::diff::{DiffLine, DiffTool};
use scrut::escaping::Escaper;
use scrut::expectation::{Expectation, ExpectationMaker};
use scrut::output::{ExitStatus, Output};
use scrut::rules::registry::RuleRegistry;
use scrut::testcase::{TestCase, TestCaseError};
use unicode_categories::UnicodeCategories;

fn jstr(s: &str) -> String {
    let mut o = String::from("\"");
    for c in s.chars() {
        match c {
            '"' => o.push_str("\\\""),
            '\\' => o.push_str("\\\\"),
            '\n' => o.push_str("\\n"),
            '\r' => o.push_str("\\r"),
            '\t' => o.push_str("\\t"),
            c if (c as u32) < 0x20 => {
                let _ = write!(o, "\\u{:04x}", c as u32);
            }
            c => o.push(c),
        }
    }
    o.push('"');
    o
}
fn jbytes(b: &[u8]) -> String {
    format!("[{}]", b.iter().map(|x| x.to_string()).collect::<Vec<_>>().join(","))
}

// ------------------------------------------------------------------------------------------------ axioms
fn hexdigit(d: u8) -> char {
    b"0123456789abcdef"[d as usize] as char
}
fn cmd_axioms() -> (u64, Vec<String>) {
    let mut n = 0u64;
    let mut bad = vec![];
    // axiom_radix_hex2 + the {:02x} format helper + radix 8 on two octal digits
    for b in 0..=255u8 {
        let hex2: String = [hexdigit(b / 16), hexdigit(b % 16)].iter().collect();
        n += 3;
        if u8::from_str_radix(&hex2, 16) != Ok(b) {
            bad.push(format!("radix_u8(hex2({b}),16) != {b}"));
        }
        if format!("\\x{:02x}", b) != format!("\\x{hex2}") {
            bad.push(format!("format {{:02x}} of {b}"));
        }
        if b < 64 {
            let o: String = [hexdigit(b / 8), hexdigit(b % 8)].iter().collect();
            if u8::from_str_radix(&o, 8) != Ok(b) {
                bad.push(format!("radix 8 of {o}"));
            }
        }
    }
    // format helpers with {} placeholders: Display of str is the identity
    for s in ["", "a", "^x$", "{}", "é\u{1b}"] {
        n += 2;
        if format!("^(?:{})$", s) != ["^(?:", s, ")$"].concat() {
            bad.push(format!("format ^(?:{{}})$ of {s:?}"));
        }
        let escaped = s;
        if format!("{escaped} (escaped)") != [s, " (escaped)"].concat() {
            bad.push(format!("format {{escaped}} (escaped) of {s:?}"));
        }
    }
    // is_other axioms over all scalar values; UTF-8 LF axiom
    for u in 0..=0x10FFFFu32 {
        if let Some(c) = char::from_u32(u) {
            n += 3;
            let printable = (0x20..=0x7e).contains(&u);
            if printable && c.is_other() {
                bad.push(format!("printable ascii U+{u:04X} is_other"));
            }
            let mut buf = [0u8; 4];
            let enc = c.encode_utf8(&mut buf).as_bytes();
            if c.is_other() && enc.iter().all(|b| (0x20..=0x7e).contains(b)) {
                bad.push(format!("other char U+{u:04X} has only printable bytes"));
            }
            // axiom_utf8_last_ascii: an ASCII last byte means an ASCII char
            if *enc.last().unwrap() < 0x80 && u >= 0x80 {
                bad.push(format!("U+{u:04X} is not ASCII but its UTF-8 encoding ends in an ASCII byte"));
            }
            if c != '\n' && enc.contains(&10u8) {
                bad.push(format!("U+{u:04X} encodes with a 0x0a byte"));
            }
            // axiom_lossy_valid on single chars
            if String::from_utf8_lossy(enc) != c.to_string() {
                bad.push(format!("lossy(valid) U+{u:04X}"));
            }
        }
    }
    // axiom_lossy_ascii / axiom_lossy_unprintable / from_utf8 spec: all byte strings of length <= 2, plus 3-byte over a small alphabet
    let alpha3: [u8; 12] = [0, 9, 10, 0x1b, 0x20, b'\\', b'a', 0x7e, 0x7f, 0x80, 0xc3, 0xe2];
    let mut strings: Vec<Vec<u8>> = vec![vec![]];
    for a in 0..=255u8 {
        strings.push(vec![a]);
        for b in 0..=255u8 {
            strings.push(vec![a, b]);
        }
    }
    for a in alpha3 {
        for b in alpha3 {
            for c in alpha3 {
                strings.push(vec![a, b, c]);
            }
        }
    }
    for bs in &strings {
        n += 3;
        let l = String::from_utf8_lossy(bs).to_string();
        if bs.iter().all(|b| *b < 0x80) && l.chars().map(|c| c as u32 as u8).collect::<Vec<_>>() != *bs {
            bad.push(format!("lossy(ascii) {bs:?}"));
        }
        if bs.iter().any(|b| !(0x20..=0x7e).contains(b)) && l.chars().all(|c| (0x20..=0x7e).contains(&(c as u32))) {
            bad.push(format!("lossy(unprintable) printable {bs:?}"));
        }
        match String::from_utf8(bs.clone()) {
            Ok(s) => {
                if s.as_bytes() != &bs[..] || std::str::from_utf8(bs).is_err() {
                    bad.push(format!("from_utf8 Ok {bs:?}"));
                }
            }
            Err(_) => {
                if std::str::from_utf8(bs).is_ok() {
                    bad.push(format!("from_utf8 Err {bs:?}"));
                }
            }
        }
    }
    (n, bad)
}

// ------------------------------------------------------------------------------------------------ diff (C01-C03)
#[derive(Clone)]
struct E {
    optional: bool,
    multiline: bool,
    set: u8, // bitmask over alphabet a,b,c
}
fn matches(e: &E, l: u8) -> bool {
    // line kinds: 0,1,2 = "a","b","c"; 3 = the empty line (matched by no one-character class)
    l < 3 && e.set & (1 << l) != 0
}
fn acc(es: &[E], ls: &[u8], i: usize, used: bool, j: usize) -> bool {
    if i >= es.len() {
        return j == ls.len();
    }
    ((used || es[i].optional) && acc(es, ls, i + 1, false, j))
        || (j < ls.len() && matches(&es[i], ls[j]) && (!used || es[i].multiline) && acc(es, ls, i, true, j + 1))
}
fn all_optional(es: &[E], a: usize, b: usize) -> bool {
    (a..b).all(|k| es[k].optional)
}
fn in_next(es: &[E], i: usize, used: bool, k: usize) -> bool {
    i < es.len() && ((k == i && (!used || es[i].multiline)) || (i < k && k < es.len() && (used || es[i].optional) && all_optional(es, i + 1, k)))
}
fn deterministic(es: &[E], ls: &[u8]) -> bool {
    for i in 0..es.len() {
        for used in [false, true] {
            for &l in ls.iter() {
                let mut cnt = 0;
                for k in 0..es.len() {
                    if in_next(es, i, used, k) && matches(&es[k], l) {
                        cnt += 1;
                    }
                }
                if cnt > 1 {
                    return false;
                }
            }
        }
    }
    true
}
/// C02: the conservation predicate wf_prefix(D, E, L, n, m), transcribed from contracts/lemmas/diff_lang.rs
fn wf(d: &[DiffLine], es: &[E], lines: &[Vec<u8>], ls: &[u8]) -> Result<(), String> {
    let mut next_line = 0usize;
    let mut next_exp = 0usize;
    for (p, x) in d.iter().enumerate() {
        match x {
            DiffLine::MatchedExpectation { index, expectation: _, lines: got } => {
                if *index < next_exp || *index >= es.len() || !all_optional(es, next_exp, *index) {
                    return Err(format!("entry {p}: matched expectation index {index} out of order / skips a non-optional one"));
                }
                if got.is_empty() || (!es[*index].multiline && got.len() != 1) {
                    return Err(format!("entry {p}: {} lines for expectation {index}", got.len()));
                }
                for (li, content) in got {
                    if *li != next_line || *li >= lines.len() || content != &lines[*li] {
                        return Err(format!("entry {p}: line {li} out of order or wrong content (expected line {next_line})"));
                    }
                    if !matches(&es[*index], ls[*li]) {
                        return Err(format!("entry {p}: line {li} does not match expectation {index}"));
                    }
                    next_line += 1;
                }
                next_exp = index + 1;
            }
            DiffLine::UnmatchedExpectation { index, expectation: _ } => {
                if *index < next_exp || *index >= es.len() || !all_optional(es, next_exp, *index) || es[*index].optional {
                    return Err(format!("entry {p}: unmatched expectation index {index} out of order / optional"));
                }
                next_exp = index + 1;
            }
            DiffLine::UnexpectedLines { lines: got } => {
                if got.is_empty() {
                    return Err(format!("entry {p}: empty unexpected block"));
                }
                for (li, content) in got {
                    if *li != next_line || *li >= lines.len() || content != &lines[*li] {
                        return Err(format!("entry {p}: unexpected line {li} out of order (expected {next_line})"));
                    }
                    next_line += 1;
                }
            }
        }
    }
    if next_line != lines.len() {
        return Err(format!("only {next_line} of {} lines accounted for", lines.len()));
    }
    if !all_optional(es, next_exp, es.len()) {
        return Err(format!("a non-optional expectation after index {next_exp} is not mentioned"));
    }
    Ok(())
}
fn mk_exp(maker: &ExpectationMaker, e: &E) -> Expectation {
    let mut class = String::new();
    for (k, ch) in ['a', 'b', 'c'].iter().enumerate() {
        if e.set & (1 << k) != 0 {
            class.push(*ch);
        }
    }
    if class.is_empty() {
        class.push('z');
    }
    let q = match (e.optional, e.multiline) {
        (false, false) => "",
        (true, false) => "?",
        (true, true) => "*",
        (false, true) => "+",
    };
    maker.parse(&format!("[{class}] (regex{q})")).expect("parse expectation")
}
fn case_json(es: &[E], ls: &[u8], final_newline: bool) -> String {
    let e: Vec<String> = es.iter().map(|e| format!("{{\"optional\":{},\"multiline\":{},\"set\":{}}}", e.optional, e.multiline, e.set)).collect();
    format!("{{\"expectations\":[{}],\"lines\":{},\"final_newline\":{}}}", e.join(","), jbytes(ls), final_newline)
}
thread_local! { static EXP_CACHE: std::cell::RefCell<BTreeMap<(bool, bool, u8), Expectation>> = std::cell::RefCell::new(BTreeMap::new()); }
fn run_diff_case(maker: &ExpectationMaker, es: &[E], ls: &[u8], final_newline: bool, props: &str) -> Option<String> {
    let exps: Vec<Expectation> = es
        .iter()
        .map(|e| EXP_CACHE.with(|c| c.borrow_mut().entry((e.optional, e.multiline, e.set)).or_insert_with(|| mk_exp(maker, e)).clone()))
        .collect();
    let mut out = vec![];
    let mut lines: Vec<Vec<u8>> = vec![];
    for (k, l) in ls.iter().enumerate() {
        let mut line = if *l < 3 { vec![b'a' + *l] } else { vec![] };
        if k + 1 < ls.len() || final_newline {
            line.push(b'\n');
        }
        out.extend(&line);
        lines.push(line);
    }
    let d = match std::panic::catch_unwind(std::panic::AssertUnwindSafe(|| DiffTool::new(exps.clone()).diff(&out))) {
        Ok(Ok(d)) => d,
        Ok(Err(e)) => return Some(format!("C02: diff returned Err: {e}")),
        Err(_) => return Some("C02: diff panicked".to_string()),
    };
    let accepted = acc(es, ls, 0, false, 0);
    let reported = !d.has_differences();
    if (props == "all" || props == "C02") {
        if let Err(why) = wf(&d.lines, es, &lines, ls) {
            return Some(format!("C02: {why}"));
        }
    }
    if (props == "all" || props == "C01") && reported && !accepted {
        return Some("C01: reported a match but the output is not in the language of the expectations".to_string());
    }
    if (props == "all" || props == "C03") && deterministic(es, ls) && accepted != reported {
        return Some(format!("C03: deterministic case: accepted={accepted} but reported match={reported}"));
    }
    None
}
fn cmd_diff(props: &str, max_exp: usize, max_lines: usize) -> (u64, Vec<String>) {
    let maker = ExpectationMaker::new(RuleRegistry::default());
    let mut kinds = vec![];
    for set in 0..8u8 {
        for (o, m) in [(false, false), (true, false), (true, true), (false, true)] {
            kinds.push(E { optional: o, multiline: m, set });
        }
    }
    let mut n = 0u64;
    let mut bad = vec![];
    let mut exp_lists: Vec<Vec<E>> = vec![vec![]];
    let mut frontier: Vec<Vec<E>> = vec![vec![]];
    for _ in 0..max_exp {
        let mut next = vec![];
        for l in &frontier {
            for k in &kinds {
                let mut x = l.clone();
                x.push(k.clone());
                next.push(x);
            }
        }
        exp_lists.extend(next.iter().cloned());
        frontier = next;
    }
    let mut outs: Vec<Vec<u8>> = vec![vec![]];
    let mut fr: Vec<Vec<u8>> = vec![vec![]];
    for _ in 0..max_lines {
        let mut next = vec![];
        for l in &fr {
            for c in 0..4u8 {
                let mut x = l.clone();
                x.push(c);
                next.push(x);
            }
        }
        outs.extend(next.iter().cloned());
        fr = next;
    }
    std::panic::set_hook(Box::new(|_| {}));
    for es in &exp_lists {
        for ls in &outs {
            for fin in [true, false] {
                if (ls.is_empty() || *ls.last().unwrap() == 3) && !fin {
                    continue;
                }
                n += 1;
                if let Some(why) = run_diff_case(&maker, es, ls, fin, props) {
                    if bad.len() < 3 {
                        bad.push(format!("{{\"why\":{},\"case\":{}}}", jstr(&why), case_json(es, ls, fin)));
                    } else {
                        return (n, bad);
                    }
                }
            }
        }
    }
    (n, bad)
}

// ------------------------------------------------------------------------------------------------ escape (C11 / C04 escaped)
thread_local! { static UNPRINTABLE_UNICODE: regex::Regex = regex::Regex::new(r"[\p{Cc}\p{Cf}\p{Cn}]").unwrap(); }
fn cmd_escape(mode: &str, maxlen: usize, matching_only: bool) -> (u64, Vec<String>) {
    let maker = ExpectationMaker::new(RuleRegistry::default());
    let alpha: [u8; 14] = [0, 7, 9, 0x0b, 0x0c, 0x0d, 0x1b, b' ', b'\\', b'a', b'x', b'0', 0x7f, 0xc3];
    let mut strings: Vec<Vec<u8>> = vec![vec![]];
    let mut fr: Vec<Vec<u8>> = vec![vec![]];
    for _ in 0..maxlen {
        let mut next = vec![];
        for l in &fr {
            for c in alpha {
                let mut x = l.clone();
                x.push(c);
                next.push(x);
            }
        }
        strings.extend(next.iter().cloned());
        fr = next;
    }
    // plus a few valid multi-byte ones
    for s in ["é", "a\u{200b}b", "\\\u{0}", "a\\tb\u{0}", "日本\u{3000}", "\u{e000}\\x",
              // content that ends like a modifier the reader of escaped expectations treats specially
              "a\tb (no-eol)", "\u{1b}[1mx\u{1b}[0m (no-eol)", "\u{200b} (no-eol)", "\t (no-eol) (no-eol)", "\t(no-eol)", "\t (no-eol) ", "é\t (no-eol)", "\t (escaped)", "\t (esc)",
              // printable non-ASCII text with backslashes (nothing to escape: must be written as itself), and the same with something to escape
              "a\u{378}b", "fmt:\u{8e2}:", "\u{ffff}", "café\\", "é\\t", "C:\\Users\\André\\temp", "é\\t\u{7}", "\\x41é", "日本\\0101"] {
        strings.push(s.as_bytes().to_vec());
    }
    let mut n = 0u64;
    let mut bad = vec![];
    let modes: Vec<(&str, Escaper)> = match mode {
        "ascii" => vec![("ascii", Escaper::Ascii)],
        "unicode" => vec![("unicode", Escaper::Unicode)],
        _ => vec![("ascii", Escaper::Ascii), ("unicode", Escaper::Unicode)],
    };
    for (mname, esc) in &modes {
        for content in &strings {
            let mut line = content.clone();
            line.push(b'\n');
            n += 1;
            let text = esc.escaped_expectation(&line);
            let printable = if *mname == "ascii" { text.chars().all(|c| (0x20..=0x7e).contains(&(c as u32))) } else { text.chars().all(|c| !c.is_other()) };
            if !printable {
                bad.push(format!("{{\"class\":\"printable\",\"why\":\"C11 printable ({mname})\",\"content\":{},\"text\":{}}}", jbytes(content), jstr(&text)));
            }
            // unicode mode: "no control, format or unassigned code points" -- by the Unicode tables of the regex crate, not by the table the escaper itself uses
            if *mname == "unicode" && !matching_only {
                if let Some(c) = text.chars().find(|c| UNPRINTABLE_UNICODE.with(|r| r.is_match(&c.to_string()))) {
                    bad.push(format!("{{\"class\":\"unassigned-or-new-format\",\"why\":{},\"content\":{},\"text\":{}}}", jstr(&format!("C11 printable (unicode): the written text contains U+{:04X}, a control / format / unassigned code point", c as u32)), jbytes(content), jstr(&text)));
                }
            }
            // "the line itself (an equal expectation) when that is printable text"
            if !esc.has_unprintable(content) && text != String::from_utf8_lossy(content) {
                bad.push(format!("{{\"class\":\"kind\",\"why\":\"C11 kind ({mname}): printable text is not written as itself\",\"content\":{},\"text\":{}}}", jbytes(content), jstr(&text)));
            }
            // read back: as `escaped` when marked, else as `equal` (the kind C11 names; kind detection by the expectation regex is C08/C09)
            let exp = if let Some(t) = text.strip_suffix(" (escaped)") {
                maker.parse(&format!("{t} (escaped)"))
            } else {
                // plain text is written as an equal expectation; build it directly to stay clear of suffix parsing
                scrut::rules::registry::RuleRegistry::default().make("equal", &text).map(|_| ()).ok();
                maker.parse(&format!("{text} (equal)"))
            };
            match exp {
                Ok(e) => {
                    if !e.matches(&line) {
                        bad.push(format!("{{\"class\":\"lossless\",\"why\":\"C11 lossless ({mname}): written text does not match its own line\",\"content\":{},\"text\":{}}}", jbytes(content), jstr(&text)));
                    }
                    // ... and no line with different content (sample: every other enumerated string)
                    if content.len() <= 2 {
                        for other in strings.iter().filter(|o| o.len() <= 2 && *o != content) {
                            let mut ol = other.clone();
                            ol.push(b'\n');
                            if e.matches(&ol) {
                                bad.push(format!("{{\"class\":\"lossless\",\"why\":\"C11 lossless ({mname}): also matches different content\",\"content\":{},\"other\":{},\"text\":{}}}", jbytes(content), jbytes(other), jstr(&text)));
                                break;
                            }
                        }
                    }
                }
                Err(err) => bad.push(format!("{{\"class\":\"other\",\"why\":\"C11: written text does not parse: {}\",\"content\":{},\"text\":{}}}", err.to_string().replace('"', "'"), jbytes(content), jstr(&text))),
            }
            // (failing inputs are classed; the driver reports the first of each class, so a class with a listed known finding must not use up the quota)
            if bad.len() >= 200 {
                return (n, bad);
            }
        }
    }
    (n, bad)
}

// ------------------------------------------------------------------------------------------------ config (C16)
fn cmd_config() -> (u64, Vec<String>) {
    let mut n = 0u64;
    let mut bad = vec![];
    let vals: [Option<bool>; 3] = [None, Some(true), Some(false)];
    let envs: Vec<BTreeMap<String, String>> = vec![
        BTreeMap::new(),
        BTreeMap::from([("K".to_string(), "a".to_string())]),
        BTreeMap::from([("K".to_string(), "b".to_string()), ("L".to_string(), "l".to_string())]),
    ];
    let streams = [None, Some(OutputStreamControl::Stdout), Some(OutputStreamControl::Stderr)];
    let mk = |k: Option<bool>, e: &BTreeMap<String, String>, s: &Option<OutputStreamControl>, c: Option<i32>| TestCaseConfig {
        keep_crlf: k,
        environment: e.clone(),
        output_stream: s.clone(),
        skip_document_code: c,
        ..Default::default()
    };
    let codes = [None, Some(1), Some(2)];
    let mut layers = vec![];
    for k in vals {
        for e in &envs {
            for (si, s) in streams.iter().enumerate() {
                layers.push(mk(k, e, s, codes[si]));
            }
        }
    }
    for hi in &layers {
        for lo in &layers {
            n += 1;
            let r = hi.with_defaults_from(lo);
            let r2 = lo.with_overrides_from(hi);
            let exp_k = hi.keep_crlf.or(lo.keep_crlf);
            let exp_s = hi.output_stream.clone().or(lo.output_stream.clone());
            let mut exp_env = lo.environment.clone();
            for (k, v) in &hi.environment {
                exp_env.insert(k.clone(), v.clone());
            }
            if r.keep_crlf != exp_k || r.output_stream != exp_s || r.environment != exp_env || r != r2 || r.skip_document_code != hi.skip_document_code.or(lo.skip_document_code) {
                if bad.len() < 3 {
                    bad.push(format!("{{\"why\":\"C16 layering\",\"hi\":{},\"lo\":{},\"got\":{}}}", jstr(&format!("{hi:?}")), jstr(&format!("{lo:?}")), jstr(&format!("{r:?}"))));
                }
            }
        }
    }
    // layers as they are READ (serde_yaml + humantime): a key that is written is set, whatever its value -- zero included
    {
        use std::time::Duration;
        let durs: [(&str, Option<Duration>); 5] = [("", None), ("timeout: 0s", Some(Duration::ZERO)), ("timeout: 0ms", Some(Duration::ZERO)), ("timeout: 5s", Some(Duration::from_secs(5))), ("timeout: 1m 1s", Some(Duration::from_secs(61)))];
        let mut read: Vec<(String, TestCaseConfig, Option<Duration>)> = vec![];
        for (txt, want) in durs {
            n += 1;
            match serde_yaml::from_str::<TestCaseConfig>(&format!("{{{txt}}}")) {
                Ok(c) => { if c.timeout != want { bad.push(format!("{{\"why\":{}}}", jstr(&format!("C16: the inline configuration {{{txt}}} is read with timeout {:?}, written {want:?}", c.timeout)))); } read.push((txt.to_string(), c, want)); }
                Err(e) => bad.push(format!("{{\"why\":{}}}", jstr(&format!("C16: the inline configuration {{{txt}}} is rejected: {e}")))),
            }
        }
        for (ht, hi, hw) in &read {
            for (lt, lo, lw) in &read {
                n += 1;
                let r = hi.with_defaults_from(lo);
                if r.timeout != hw.or(*lw) && bad.len() < 3 {
                    bad.push(format!("{{\"why\":{}}}", jstr(&format!("C16: test case {{{ht}}} over defaults {{{lt}}}: timeout in effect {:?}, expected {:?}", r.timeout, hw.or(*lw)))));
                }
            }
        }
        for (txt, want) in [("total_timeout: 0s", Some(Duration::ZERO)), ("total_timeout: 7s", Some(Duration::from_secs(7))), ("shell: bash", None)] {
            n += 1;
            match serde_yaml::from_str::<DocumentConfig>(txt) {
                Ok(c) => {
                    let eff = c.with_defaults_from(&DocumentConfig::default_markdown()).total_timeout;
                    let exp = want.or(DocumentConfig::default_markdown().total_timeout);
                    if c.total_timeout != want || eff != exp { bad.push(format!("{{\"why\":{}}}", jstr(&format!("C16: front matter `{txt}` is read with total_timeout {:?} (written {want:?}); over the Markdown defaults {eff:?} is in effect, expected {exp:?}", c.total_timeout)))); }
                }
                Err(e) => bad.push(format!("{{\"why\":{}}}", jstr(&format!("C16: the front matter `{txt}` is rejected: {e}")))),
            }
        }
    }
    // document level lists
    let a = DocumentConfig { append: vec!["a".into()], prepend: vec!["pa".into()], ..Default::default() };
    let b = DocumentConfig { append: vec!["b".into()], prepend: vec!["pb".into()], ..Default::default() };
    let r = a.with_defaults_from(&b);
    n += 1;
    if r.append != vec![std::path::PathBuf::from("b"), "a".into()] || r.prepend != vec![std::path::PathBuf::from("pa"), "pb".into()] {
        bad.push("{\"why\":\"C16 append/prepend order\"}".to_string());
    }
    (n, bad)
}

// ------------------------------------------------------------------------------------------------ validate (C05)
fn cmd_validate() -> (u64, Vec<String>) {
    let maker = ExpectationMaker::new(RuleRegistry::default());
    let mut n = 0u64;
    let mut bad = vec![];
    let statuses = [
        ExitStatus::Code(0),
        ExitStatus::Code(1),
        ExitStatus::Code(3),
        ExitStatus::Unknown,
        ExitStatus::Skipped,
        ExitStatus::Timeout(std::time::Duration::from_secs(1)),
    ];
    let exps_list: Vec<Vec<&str>> = vec![vec![], vec!["a"], vec!["a", "b"], vec!["a (?)"]];
    let streams = ["", "a\n", "a\nb\n", "b\n"];
    let expected = [None, Some(0), Some(1), Some(3)];
    let configs = [None, Some(OutputStreamControl::Stdout), Some(OutputStreamControl::Stderr), Some(OutputStreamControl::Combined)];
    for st in &statuses {
        for exps in &exps_list {
            for so in streams {
                for se in streams {
                    for ex in expected {
                        for cfg in &configs {
                            n += 1;
                            let tc = TestCase {
                                title: "t".into(),
                                shell_expression: "x".into(),
                                expectations: exps.iter().map(|e| maker.parse(e).unwrap()).collect(),
                                exit_code: ex,
                                line_number: 1,
                                config: TestCaseConfig { output_stream: cfg.clone(), ..Default::default() },
                            };
                            let out = Output { stdout: so.as_bytes().to_vec().into(), stderr: se.as_bytes().to_vec().into(), exit_code: st.clone() };
                            let r = tc.validate(&out);
                            let sel = if *cfg == Some(OutputStreamControl::Stderr) { se } else { so };
                            // reference: the selected stream is accepted
                            let d = DiffTool::new(tc.expectations.clone()).diff(sel.as_bytes()).unwrap();
                            let accepted = !d.has_differences();
                            let code_ok = matches!(st, ExitStatus::Code(c) if *c == ex.unwrap_or(0));
                            let want_ok = code_ok && accepted;
                            let mut why = None;
                            if r.is_ok() != want_ok {
                                why = Some(format!("validate Ok={} but code_ok={code_ok} accepted={accepted}", r.is_ok()));
                            }
                            if let ExitStatus::Code(c) = st {
                                if *c != ex.unwrap_or(0) && !matches!(r, Err(TestCaseError::InvalidExitCode { actual, expected }) if actual == *c && expected == ex.unwrap_or(0)) {
                                    why = Some("wrong exit code not reported as InvalidExitCode".to_string());
                                }
                            }
                            if let Some(w) = why {
                                if bad.len() < 3 {
                                    bad.push(format!(
                                        "{{\"why\":{},\"status\":{},\"expectations\":{},\"stdout\":{},\"stderr\":{},\"expected_code\":{},\"output_stream\":{}}}",
                                        jstr(&w), jstr(&format!("{st:?}")), jstr(&format!("{exps:?}")), jstr(so), jstr(se), jstr(&format!("{ex:?}")), jstr(&format!("{cfg:?}"))
                                    ));
                                }
                            }
                        }
                    }
                }
            }
        }
    }
    (n, bad)
}

// ------------------------------------------------------------------------------------------------ markdown probes (C06 observations)
fn cmd_markdown() -> (u64, Vec<String>) {
    use scrut::parsers::markdown::{MarkdownParser, DEFAULT_MARKDOWN_LANGUAGES};
    use scrut::parsers::parser::Parser;
    let docs: Vec<(&str, String, usize)> = vec![
        ("empty scrut block", "# t\n\n```scrut\n```\n".to_string(), 0),
        ("multi-byte info string with config", "```日{a: 1}\nx\n```\n\n```scrut\n$ echo a\na\n```\n".to_string(), 1),
        ("line starting with two backticks", "``inline`` code at line start\n\n```scrut\n$ echo a\na\n```\n".to_string(), 1),
        ("unterminated front-matter (must be an error)", "---\nfoo\n\n```scrut\n$ echo a\na\n```\n".to_string(), 99),
        ("unterminated fence after a complete block (must be an error)", "```scrut\n$ echo a\na\n```\n\n```scrut\n$ echo b\n".to_string(), 99),
        ("plain", "# t\n\n```scrut\n$ echo a\na\n```\n".to_string(), 1),
        // white space at the end of a fence line is not part of the language / of the configuration
        ("blank after the language", "# T\n\n```scrut \n$ echo a\n```\n".to_string(), 1),
        ("tab after the language", "```scrut\t\n$ echo a\n```\n".to_string(), 1),
        ("blank after the inline configuration", "```scrut {timeout: 3s} \n$ echo a\n```\n".to_string(), 1),
        ("blank after the closing fence", "# T\n\n```scrut\n$ echo a\n``` \n\n```scrut\n$ echo b\n```\n".to_string(), 2),
        ("CRLF line endings", "```scrut\r\n$ echo a\r\n```\r\n".to_string(), 1),
        // a scrut block inside a longer fence without language is not a test (the block without language is an error)
        ("scrut block inside a bare four-backtick fence", "````\n```scrut\n$ echo a\n```\n````\n".to_string(), 99),
        ("scrut block inside a four-backtick markdown fence", "````markdown\n```scrut\n$ echo a\n```\n````\n\n```scrut\n$ echo b\n```\n".to_string(), 1),
        ("title after a code block of another language", "Title A\n```bash\nx\n```\nMore\n```scrut\n$ echo a\n```\n".to_string(), 1),
    ];
    let mut n = 0;
    let mut bad = vec![];
    std::panic::set_hook(Box::new(|_| {}));
    for (name, doc, want) in docs {
        n += 1;
        let maker = std::sync::Arc::new(ExpectationMaker::new(RuleRegistry::default()));
        let r = std::panic::catch_unwind(std::panic::AssertUnwindSafe(|| MarkdownParser::new(maker, DEFAULT_MARKDOWN_LANGUAGES, None).parse(&doc)));
        match r {
            Err(_) => bad.push(format!("{{\"why\":\"C06: parse panics\",\"doc\":{},\"name\":{}}}", jstr(&doc), jstr(name))),
            Ok(Err(_)) => {}
            Ok(Ok((_, tcs))) => {
                if tcs.len() != want {
                    bad.push(format!("{{\"why\":\"C06: {} test cases, expected {}\",\"doc\":{},\"name\":{}}}", tcs.len(), want, jstr(&doc), jstr(name)));
                }
                if name == "blank after the inline configuration" && tcs.len() == 1 && tcs[0].config.timeout != Some(std::time::Duration::from_secs(3)) {
                    bad.push(format!("{{\"why\":\"C06: the inline configuration {{timeout: 3s}} is read as timeout {:?}\",\"doc\":{},\"name\":{}}}", tcs[0].config.timeout, jstr(&doc), jstr(name)));
                }
                if name == "title after a code block of another language" && tcs.len() == 1 && tcs[0].title != "More" {
                    bad.push(format!("{{\"why\":{},\"doc\":{},\"name\":{}}}", jstr(&format!("C06: title {:?}, the nearest preceding paragraph is \"More\"", tcs[0].title)), jstr(&doc), jstr(name)));
                }
            }
        }
    }
    (n, bad)
}

// ------------------------------------------------------------------------------------------------ expectation grammar (C08)
/// independent reading of the line grammar (lemmas/expect_lang.rs: line_parts): the modifier starts at the last `(` of the line
fn c08_line_parts(line: &str) -> (String, String, String) {
    const KINDS: [&str; 9] = ["equal", "eq", "no-eol", "escaped", "esc", "glob", "gl", "regex", "re"];
    let whole = (line.to_string(), "equal".to_string(), String::new());
    if !line.ends_with(')') {
        return whole;
    }
    let Some(open) = line.rfind('(') else { return whole };
    let Some(ws) = line[..open].chars().last() else { return whole };
    if !ws.is_whitespace() {
        return whole;
    }
    let inner = &line[open + 1..line.len() - 1];
    let (k, q) = match inner.chars().last() {
        Some(c) if "*+?".contains(c) => (&inner[..inner.len() - 1], &inner[inner.len() - 1..]),
        _ => (inner, ""),
    };
    if !(k.is_empty() || KINDS.contains(&k)) || (k.is_empty() && q.is_empty()) {
        return whole;
    }
    (line[..open - ws.len_utf8()].to_string(), if k.is_empty() { "equal".into() } else { k.to_string() }, q.to_string())
}
fn c08_long(kind: &str) -> &str {
    match kind { "eq" => "equal", "esc" => "escaped", "gl" => "glob", "re" => "regex", k => k }
}
/// BOUNDED: every line over a small alphabet up to `len` characters: parse never panics, fails only for regex/escaped kinds,
/// agrees with line_parts (validates the assumed contract of the regular expression), and the canonical rendering parses back to the
/// same kind, quantifier flags and expression
fn cmd_c08(len: usize) -> (u64, Vec<String>) {
    let alphabet: Vec<char> = "a ()?*re".chars().collect();
    let maker = ExpectationMaker::new(RuleRegistry::default());
    std::panic::set_hook(Box::new(|_| {}));
    let mut n = 0u64;
    let mut bad = vec![];
    let mut idx = vec![0usize; 0];
    let mut extra: Vec<String> = ["foo ()", "foo (?) (equal)", "foo (re) (equal)", "x\t(glob+)", "x (no-eol)", "x (esc*)", "[a (regex)", "x (gl) (eq?)"].iter().map(|s| s.to_string()).collect();
    // a structured family around the modifier: expression x separator x kind x quantifier x closing
    for e in ["", "a", "a ", " a", "a(", "a)", "a (re)", "(", "a  ", "\u{e9}"] {
        for w in [" ", "\t", "  ", " \t", "\u{a0}", ""] {
            for k in ["", "re", "eq", "equal", "x", "no-eol", "esc", "(re", "regex", "glob"] {
                for q in ["", "?", "*", "+", "??"] {
                    for c in [")", "", "))", ") "] {
                        extra.push(format!("{e}{w}({k}{q}{c}"));
                    }
                }
            }
        }
    }
    loop {
        let line: String = if let Some(e) = extra.pop() { e } else {
            // next word in length-lexicographic order
            let mut i = idx.len();
            loop {
                if i == 0 { idx = vec![0; idx.len() + 1]; break; }
                i -= 1;
                if idx[i] + 1 < alphabet.len() { idx[i] += 1; for j in i + 1..idx.len() { idx[j] = 0; } break; }
            }
            if idx.len() > len { break; }
            idx.iter().map(|&i| alphabet[i]).collect()
        };
        n += 1;
        let (e, k, q) = c08_line_parts(&line);
        let r = std::panic::catch_unwind(std::panic::AssertUnwindSafe(|| maker.parse(&line)));
        let x = match r {
            Err(_) => { bad.push(format!("{{\"why\":{},\"line\":{}}}", jstr(&format!("C08: parse panics")), jstr(&line))); continue; }
            Ok(Err(err)) => {
                if !matches!(c08_long(&k), "regex" | "escaped") {
                    bad.push(format!("{{\"why\":{},\"line\":{}}}", jstr(&format!("C08: parse fails for kind {k}: {}", err.to_string().replace('"', "'"))), jstr(&line)));
                }
                continue;
            }
            Ok(Ok(x)) => x,
        };
        let (kind, expr, opt, multi) = x.unmake();
        let want = (c08_long(&k).to_string(), q == "*" || q == "?", q == "*" || q == "+");
        if (kind.clone(), opt, multi) != want || (kind != "escaped" && kind != "glob" && expr != e.as_bytes()) {
            bad.push(format!("{{\"why\":{},\"line\":{}}}", jstr(&format!("C08: parsed as kind={kind} expr={:?} opt={opt} multi={multi}, grammar says kind={} expr={e:?} q={q:?}", String::from_utf8_lossy(&expr), want.0)), jstr(&line)));
            continue;
        }
        // canonical rendering parses back
        let rendered = x.to_expression_string(&Escaper::default());
        match std::panic::catch_unwind(std::panic::AssertUnwindSafe(|| maker.parse(&rendered))) {
            Ok(Ok(y)) => {
                let (k2, e2, o2, m2) = y.unmake();
                // (an equal rule with unprintable characters is written as `escaped`: same contents)
                if !(k2 == kind || (kind == "equal" && k2 == "escaped")) || (o2, m2) != (opt, multi) || e2 != expr {
                    bad.push(format!("{{\"why\":{},\"line\":{}}}", jstr(&format!("C08: rendering {rendered:?} parses back as kind={k2} expr={:?} opt={o2} multi={m2}, was kind={kind} expr={:?} opt={opt} multi={multi}", String::from_utf8_lossy(&e2), String::from_utf8_lossy(&expr))), jstr(&line)));
                }
            }
            _ => bad.push(format!("{{\"why\":{},\"line\":{}}}", jstr(&format!("C08: rendering {rendered:?} does not parse")), jstr(&line))),
        }
        if bad.len() > 20 { break; }
    }
    (n, bad)
}

// ------------------------------------------------------------------------------------------------ update probes (C10 observations)
fn cmd_c10_probe() -> (u64, Vec<String>) {
    use scrut::generators::generator::UpdateGenerator;
    use scrut::generators::markdown::MarkdownUpdateGenerator;
    use scrut::outcome::Outcome;
    use scrut::parsers::markdown::{MarkdownParser, DEFAULT_MARKDOWN_LANGUAGES};
    use scrut::parsers::parser::{Parser, ParserType};
    let docs = [
        "# t\n\n```scrut\n$ echo a\na\n```\n\ntail\n",
        "```scrut\n# only a comment\n```\n\n```scrut\n$ echo a\na\n```\n",
        "```scrut\n$ echo a\na\n```\n\n```scrut\n# no command\n```\ntail\n",
        "```scrut\n$ echo a\na\n```\n\n```scrut\n$ echo b\n",
        "---\nfoo: 1\n\n```scrut\n$ echo a\na\n```\n",
        "---\n---\n\n```scrut\n$ echo a\na\n```\n",
    ];
    let mut out = vec![];
    std::panic::set_hook(Box::new(|_| {}));
    for d in docs {
        let maker = std::sync::Arc::new(ExpectationMaker::new(RuleRegistry::default()));
        let txt = match MarkdownParser::new(maker, DEFAULT_MARKDOWN_LANGUAGES, None).parse(d) {
            Err(e) => format!("PARSE-ERR {e}"),
            Ok((_, tcs)) => {
                let outcomes: Vec<Outcome> = tcs.iter().map(|t| Outcome { location: None, output: Output { stderr: "".into(), stdout: "a\n".into(), exit_code: ExitStatus::Code(0) },
                    testcase: t.clone(), format: ParserType::Markdown, escaping: Escaper::default(), result: Ok(()) }).collect();
                let refs: Vec<&Outcome> = outcomes.iter().collect();
                match std::panic::catch_unwind(std::panic::AssertUnwindSafe(|| MarkdownUpdateGenerator::default().generate_update(d, &refs))) {
                    Err(_) => format!("{} testcases; UPDATE PANICS", tcs.len()),
                    Ok(Err(e)) => format!("{} testcases; UPDATE ERR {e}", tcs.len()),
                    Ok(Ok(u)) => format!("{} testcases; updated={:?} same={}", tcs.len(), u, u == d),
                }
            }
        };
        out.push(format!("{{\"doc\":{},\"result\":{}}}", jstr(d), jstr(&txt)));
    }
    (docs.len() as u64, out)
}

/// BOUNDED: every document of up to `n` lines over a small set of line shapes: when it parses, `update` with all-passing outcomes
/// neither panics nor fails, is idempotent, keeps the lines outside scrut blocks in order, and the result parses to the same commands
fn cmd_c10(n: usize) -> (u64, Vec<String>) {
    use scrut::generators::generator::UpdateGenerator;
    use scrut::generators::markdown::MarkdownUpdateGenerator;
    use scrut::outcome::Outcome;
    use scrut::parsers::markdown::{MarkdownParser, DEFAULT_MARKDOWN_LANGUAGES};
    use scrut::parsers::parser::{Parser, ParserType};
    let shapes = ["text", "", "# h", "---", "```", "```scrut", "```sh", "$ echo a", "a", "# c", "````scrut", "````", "```scrut {timeout: 3s}"];
    let maker = std::sync::Arc::new(ExpectationMaker::new(RuleRegistry::default()));
    let parser = MarkdownParser::new(maker, DEFAULT_MARKDOWN_LANGUAGES, None);
    let upd = |doc: &str| -> Result<Option<(usize, Vec<String>, String)>, String> {
        // Ok(None): does not parse
        let tcs = match std::panic::catch_unwind(std::panic::AssertUnwindSafe(|| parser.parse(doc))) {
            Err(_) => return Err("parse panics".into()),
            Ok(Err(_)) => return Ok(None),
            Ok(Ok((_, tcs))) => tcs,
        };
        let outcomes: Vec<Outcome> = tcs.iter().map(|t| Outcome { location: None, output: Output { stderr: "".into(), stdout: "a\n".into(), exit_code: ExitStatus::Code(0) },
            testcase: t.clone(), format: ParserType::Markdown, escaping: Escaper::default(), result: Ok(()) }).collect();
        let refs: Vec<&Outcome> = outcomes.iter().collect();
        match std::panic::catch_unwind(std::panic::AssertUnwindSafe(|| MarkdownUpdateGenerator::default().generate_update(doc, &refs))) {
            Err(_) => Err("update panics".into()),
            Ok(Err(e)) => Err(format!("update fails: {e}")),
            Ok(Ok(u)) => Ok(Some((tcs.len(), tcs.iter().map(|t| t.shell_expression.clone()).collect(), u))),
        }
    };
    // the lines outside scrut blocks, by an independent scan (fence = at least three backticks at column 0; closing = starts with the opening run)
    let outside = |doc: &str| -> Vec<String> {
        let mut out = vec![];
        let mut lines = doc.lines();
        while let Some(l) = lines.next() {
            let t = l.chars().take_while(|c| *c == '`').count();
            if t >= 3 && l[t..].trim_end().split('{').next().unwrap_or("").trim_end() == "scrut" {
                let fence = &l[..t];
                for m in lines.by_ref() { if m.starts_with(fence) { break; } }
            } else if t >= 3 && !(l.len() > t) && l != "```" { out.push(l.to_string()); }
            else if t >= 3 {
                out.push(l.to_string());
                let fence = &l[..t];
                for m in lines.by_ref() { out.push(m.to_string()); if m.starts_with(fence) { break; } }
            } else { out.push(l.to_string()); }
        }
        out
    };
    std::panic::set_hook(Box::new(|_| {}));
    let mut cases = 0u64;
    let mut bad = vec![];
    // documents = up to n pieces (whole constructs), and up to min(n, 4) single lines
    let pieces = ["text\n", "\n", "# h\n", "---\n---\n", "---\nfoo: 1\n---\n", "```scrut\n$ echo a\na\n```\n", "```scrut\n# c\n$ echo a\n```\n", "```scrut\n# c\n```\n",
        "```scrut\n```\n", "```sh\nx\n```\n", "````scrut {timeout: 3s}\n$ echo a\n```\na\n````\n", "```\n", "```scrut\n$ echo b\n> c\nb\n[1]\n```\n", "```scrut\nnot a command\n```\n", "```scrut\n\n$ echo c\nc\n```\n", "```scrut\nearlier\n$ echo d\n```\n",
        // kept expectation lines that START like a fence but are not bare backticks
        "````scrut\n$ echo a\n```scrut {timeout: 3s}\na\n````\n", "````scrut\n$ echo a\n```sh\n````\n",
        // a multi-line command with a BLANK continuation line (`> ` and nothing else), as in a here-document (round 12)
        "```scrut\n$ cat <<E\n> a\n> \n> E\na\n```\n"];
    let line_shapes: Vec<String> = shapes.iter().map(|l| format!("{l}\n")).collect();
    for (alphabet, bound) in [(pieces.iter().map(|s| s.to_string()).collect::<Vec<_>>(), n), (line_shapes, n.min(4))] {
        let mut idx: Vec<usize> = vec![];
        loop {
            let mut i = idx.len();
            loop {
                if i == 0 { idx = vec![0; idx.len() + 1]; break; }
                i -= 1;
                if idx[i] + 1 < alphabet.len() { idx[i] += 1; for j in i + 1..idx.len() { idx[j] = 0; } break; }
            }
            if idx.len() > bound { break; }
            let doc_lf: String = idx.iter().map(|&i| alphabet[i].as_str()).collect();
            // every document twice: as it is, and without its final line feed
            for doc in [doc_lf.clone(), doc_lf.strip_suffix('\n').unwrap_or(&doc_lf).to_string()] {
            if doc.is_empty() && !doc_lf.is_empty() { continue; }
            cases += 1;
            let why = match upd(&doc) {
                Err(w) => Some(w),
                Ok(None) => None,
                Ok(Some((k, cmds, u))) => match upd(&u) {
                    Err(w) => Some(format!("updated document: {w}")),
                    Ok(None) => Some(format!("updated document {u:?} does not parse")),
                    Ok(Some((k2, cmds2, u2))) => {
                        if k2 != k || cmds2 != cmds { Some(format!("updated document {u:?} parses to {k2} test cases {cmds2:?}, the original to {k} {cmds:?}")) }
                        else if u2 != u { Some(format!("update is not idempotent: {u:?} -> {u2:?}")) }
                        else if outside(&u) != outside(&doc) { Some(format!("lines outside scrut blocks changed: {:?} -> {:?}", outside(&doc), outside(&u))) }
                        else if u.ends_with('\n') != doc.ends_with('\n') && !doc.is_empty() { Some(format!("the final line feed changed: document ends in one: {}, updated document: {}", doc.ends_with('\n'), u.ends_with('\n'))) }
                        else { None }
                    }
                },
            };
            if let Some(w) = why {
                bad.push(format!("{{\"why\":{},\"doc\":{}}}", jstr(&format!("C10: {w}")), jstr(&doc)));
            }
            }
            if bad.len() > 10 { break; }
        }
    }
    // targeted documents in which every test passes: `update` has nothing to rewrite, the document must come back byte for byte
    for (class, doc) in [("no-final-newline", "# T\n\n```scrut\n$ echo a\na\n```\n\nlast line"),
        ("exit-code-line-of-passing-test", "```scrut\n$ echo a\na\n[0]\n```\n"),
        ("inline-config-lost", "```scrut {timeout: 5s} important\n$ echo a\na\n```\n")] {
        cases += 1;
        match upd(doc) {
            Ok(Some((_, _, u))) if u == doc => {}
            Ok(Some((_, _, u))) => bad.push(format!("{{\"class\":{},\"why\":{},\"doc\":{}}}", jstr(class), jstr(&format!("C10: every test passes, yet update rewrites the document: {u:?}")), jstr(doc))),
            Ok(None) => {}
            Err(w) => bad.push(format!("{{\"class\":{},\"why\":{},\"doc\":{}}}", jstr(class), jstr(&format!("C10: {w}")), jstr(doc))),
        }
    }
    (cases, bad)
}

// ------------------------------------------------------------------------------------------------ generated tests (C09)
/// BOUNDED: for every output over a small alphabet up to `n` bytes (plus a structured family of lines that look like test syntax), exit
/// codes 0 and 3, both formats, both escapers: `create` (a test case without expectations validated against the output, then generated)
/// gives a document that parses back to ONE test case with the same command which passes against that same output.
/// Violations are classed by what the colliding output line looks like (the class is the clause id `bounded.c09.<class>`).
fn cmd_c09(n: usize) -> (u64, Vec<String>) {
    use scrut::generators::cram::CramTestCaseGenerator;
    use scrut::generators::generator::TestCaseGenerator;
    use scrut::generators::markdown::MarkdownTestCaseGenerator;
    use scrut::outcome::Outcome;
    use scrut::parsers::cram::CramParser;
    use scrut::parsers::markdown::{MarkdownParser, DEFAULT_MARKDOWN_LANGUAGES};
    use scrut::parsers::parser::{Parser, ParserType};
    let alphabet: Vec<u8> = b"a (?)\n\t".to_vec();
    let mut outputs: Vec<Vec<u8>> = vec![];
    for special in ["[1]", "[12]", "$ x", "> x", "x\n> y", "```", "````", "# c", "foo (?)", "foo (re)", "foo ()", "foo (escaped)", "foo (no-eol)", "a\tb", "\u{e9} (*)", "  indented", "", " ", "x (equal)",
                    "\\", "a\\tb", "[a]", "[1] x", "$x", ">x", "---", "x  ", "\u{1b}[1mbold", "\u{feff}x",
                    // format / private-use / unassigned characters (is_other but not is_control), zero-width joiner, soft hyphen, NBSP
                    "a\u{200b}b", "\u{1f468}\u{200d}\u{1f469}", "soft\u{ad}hyphen", "\u{e000}", "x\u{a0}", "\u{2028}x", "a\u{200b}b (?)",
                    // unprintable content AND a modifier-like ending
                    "a\tb (no-eol)", "\u{1b}[1mx\u{1b}[0m (no-eol)", "\tx (escaped)", "\tx (glob)", "\tx (equal)", "\tx (*)", "\u{e9}\tx (no-eol)", "\t (no-eol) (no-eol)",
                    // a lone marker character: with the ` (no-eol)` suffix the written line starts like a command / continuation
                    ">", "$",
                    // non-ASCII white space before a modifier-like ending
                    "foo\u{a0}(glob)", "total: 3\u{2003}(?)", "x\u{3000}(no-eol)"] {
        for tail in ["\n", "", "\nz\n", "\nz"] {
            outputs.push(format!("{special}{tail}").into_bytes());
            outputs.push(format!("z\n{special}{tail}").into_bytes());
        }
    }
    for raw in [&b"\xff"[..], b"a\xffb\n", b"\xc3\n", b"\xc3(\n", b"ok\n\xe2\x82", b"\xf0\x9f (?)\n"] {
        outputs.push(raw.to_vec());
    }
    let mut idx: Vec<usize> = vec![];
    loop {
        let mut i = idx.len();
        loop {
            if i == 0 { idx = vec![0; idx.len() + 1]; break; }
            i -= 1;
            if idx[i] + 1 < alphabet.len() { idx[i] += 1; for j in i + 1..idx.len() { idx[j] = 0; } break; }
        }
        if idx.len() > n { break; }
        outputs.push(idx.iter().map(|&i| alphabet[i]).collect());
    }
    let maker = std::sync::Arc::new(ExpectationMaker::new(RuleRegistry::default()));
    std::panic::set_hook(Box::new(|_| {}));
    let mut cases = 0u64;
    let mut bad: Vec<String> = vec![];
    let mut seen_class: BTreeMap<String, u32> = BTreeMap::new();
    let class_of = |out: &[u8]| -> &'static str {
        let text = String::from_utf8_lossy(out);
        for l in text.lines() {
            let is_code = l.len() > 2 && l.starts_with('[') && l.ends_with(']') && l[1..l.len() - 1].bytes().all(|b| b.is_ascii_digit());
            if is_code { return "exit-code-line"; }
            if l == ">" || l == "$" { return "marker-made-by-suffix"; }
            if l.starts_with("$ ") { return "command-line"; }
            if l.starts_with("> ") { return "continuation-line"; }
        }
        "other"
    };
    for out in &outputs {
        for code in [0i32, 3] {
            for format in [ParserType::Markdown, ParserType::Cram] {
                for escaping in [Escaper::Unicode, Escaper::Ascii] {
                    cases += 1;
                    let output = Output { stderr: "".into(), stdout: out.clone().into(), exit_code: ExitStatus::Code(code) };
                    let testcase = TestCase { title: "t".into(), shell_expression: "cmd".into(), expectations: vec![], exit_code: None, line_number: 0, config: TestCaseConfig::empty() };
                    let run = std::panic::catch_unwind(std::panic::AssertUnwindSafe(|| -> Result<(), String> {
                        let result = testcase.validate(&output);
                        let outcome = Outcome { location: None, output: output.clone(), testcase: testcase.clone(), format, escaping: escaping.clone(), result };
                        let doc = match format {
                            ParserType::Markdown => MarkdownTestCaseGenerator::default().generate_testcases(&[&outcome]),
                            ParserType::Cram => CramTestCaseGenerator::default().generate_testcases(&[&outcome]),
                        }.map_err(|e| format!("generator fails: {e}"))?;
                        let parsed = match format {
                            ParserType::Markdown => MarkdownParser::new(maker.clone(), DEFAULT_MARKDOWN_LANGUAGES, None).parse(&doc),
                            ParserType::Cram => CramParser::new(maker.clone(), 2).parse(&doc),
                        }.map_err(|e| format!("generated document does not parse: {e}; document {doc:?}"))?;
                        let tcs = parsed.1;
                        if tcs.len() != 1 { return Err(format!("generated document has {} test cases; document {doc:?}", tcs.len())); }
                        if tcs[0].shell_expression != "cmd" { return Err(format!("command read back as {:?}; document {doc:?}", tcs[0].shell_expression)); }
                        tcs[0].validate(&output).map_err(|e| format!("generated test fails against its own output ({}); document {doc:?}", match e { TestCaseError::MalformedOutput(_) => "malformed output", TestCaseError::InvalidExitCode { .. } => "exit code", _ => "other" }))
                    }));
                    let why = match run { Err(_) => Some("panic".to_string()), Ok(Err(w)) => Some(w), Ok(Ok(())) => None };
                    if let Some(w) = why {
                        let class = class_of(out);
                        let k = seen_class.entry(class.to_string()).or_insert(0);
                        *k += 1;
                        if *k <= 2 {
                            bad.push(format!("{{\"class\":{},\"why\":{},\"output\":{},\"exit\":{code},\"format\":{},\"escaper\":{}}}", jstr(class),
                                jstr(&format!("C09: {w}")), jstr(&String::from_utf8_lossy(out)), jstr(&format!("{format:?}")), jstr(&format!("{escaping:?}"))));
                        }
                    }
                }
            }
        }
    }
    // a test that validates STDERR (Markdown: the setting is written into the document): `update` for a changed exit code / changed output
    {
        use scrut::generators::generator::UpdateGenerator;
        use scrut::generators::markdown::MarkdownUpdateGenerator;
        for (exps, code) in [(vec!["err"], 3i32), (vec!["old"], 0), (vec!["old"], 3)] {
            cases += 1;
            let doc = format!("# t\n\n```scrut {{output_stream: stderr}}\n$ cmd\n{}\n```\n", exps.join("\n"));
            let output = Output { stderr: "err\n".into(), stdout: "out\n".into(), exit_code: ExitStatus::Code(code) };
            let res = (|| -> Result<(), String> {
                let tcs = MarkdownParser::new(maker.clone(), DEFAULT_MARKDOWN_LANGUAGES, None).parse(&doc).map_err(|e| format!("{e}"))?.1;
                let result = tcs[0].validate(&output);
                let outcome = Outcome { location: None, output: output.clone(), testcase: tcs[0].clone(), format: ParserType::Markdown, escaping: Escaper::default(), result };
                let updated = MarkdownUpdateGenerator::default().generate_update(&doc, &[&outcome]).map_err(|e| format!("update fails: {e}"))?;
                let t2 = MarkdownParser::new(maker.clone(), DEFAULT_MARKDOWN_LANGUAGES, None).parse(&updated).map_err(|e| format!("updated document does not parse: {e}"))?.1;
                if t2.len() != 1 { return Err(format!("updated document has {} test cases", t2.len())); }
                t2[0].validate(&output).map_err(|_| format!("the block written by update fails against the output it was generated from; updated document {updated:?}"))
            })();
            if let Err(w) = res { bad.push(format!("{{\"class\":\"stderr-stream\",\"why\":{},\"output\":\"stdout out, stderr err\",\"exit\":{code},\"format\":\"Markdown\",\"escaper\":\"Unicode\"}}", jstr(&format!("C09: test with output_stream: stderr, expectations {exps:?}, exit code {code}: {w}")))); }
        }
    }
    (cases, bad)
}

// ------------------------------------------------------------------------------------------------ renderers (C19)
/// BOUNDED: every renderer (pretty colour / monochrome, diff, json, yaml) on lists of outcomes built from a small family of outputs
/// (incl. multi-byte trailing whitespace, invalid UTF-8, ANSI, empty) x expectation lists x verdict kinds: no panic and no error;
/// json / yaml are well-formed with one entry per outcome; pretty and diff mention every unexpected output line and every unmatched
/// expectation of a failed comparison, and have no failure section for a passing test
fn cmd_c19(n: usize) -> (u64, Vec<String>) {
    use scrut::outcome::Outcome;
    use scrut::parsers::parser::ParserType;
    use scrut::renderers::diff::DiffRenderer;
    use scrut::renderers::pretty::{PrettyColorRenderer, PrettyMonochromeRenderer};
    use scrut::renderers::renderer::Renderer;
    use scrut::renderers::structured::{JsonRenderer, YamlRenderer};
    let maker = ExpectationMaker::new(RuleRegistry::default());
    let outputs: Vec<Vec<u8>> = vec![b"".to_vec(), b"foo\n".to_vec(), b"foo \n".to_vec(), "foo\u{a0}\n".as_bytes().to_vec(), "foo\u{3000}\u{a0}\n".as_bytes().to_vec(), "\u{a0}\n".as_bytes().to_vec(),
        b"foo\t\n".to_vec(), b"a\nb\nc\n".to_vec(), b"no newline".to_vec(), b"\xff\xfe\n".to_vec(), b"\x1b[1mbold\x1b[0m\n".to_vec(), "\u{1f600} \n".as_bytes().to_vec(), b"\n\n".to_vec(),
        "tr\u{e4}iling\u{2003}\n".as_bytes().to_vec(), b"x\r\n".to_vec(),
        (1..=10).map(|i| format!("l{i}\n")).collect::<String>().into_bytes(), (1..=100).map(|i| format!("l{i}\n")).collect::<String>().into_bytes()];
    let expectation_sets: Vec<Vec<&str>> = vec![vec![], vec!["foo"], vec!["bar"], vec!["bar\u{a0}"], vec!["a", "x", "c"], vec!["foo (?)", "zzz (*)"], vec!["foo* (glob)"],
        // more expectations than shown in the diff: nine optional ones that match nothing (left out of the diff), then a required one (number 10: two digits)
        vec!["maybe 1 (?)", "maybe 2 (?)", "maybe 3 (?)", "maybe 4 (?)", "maybe 5 (?)", "maybe 6 (?)", "maybe 7 (?)", "maybe 8 (?)", "maybe 9 (?)", "required"],
        vec!["o1 (?)", "o2 (?)", "o3 (?)", "o4 (?)", "o5 (?)", "o6 (?)", "o7 (?)", "o8 (?)", "o9 (?)", "o10 (?)", "o11 (?)", "foo", "required"]];
    let renderers: Vec<(&str, Box<dyn Renderer>)> = vec![("pretty", Box::new(PrettyColorRenderer::default())), ("pretty-mono", Box::new(PrettyMonochromeRenderer::new(PrettyColorRenderer::default()))),
        ("diff", Box::new(DiffRenderer::new())), ("json", Box::new(JsonRenderer::new(false))), ("yaml", Box::new(YamlRenderer::new()))];
    std::panic::set_hook(Box::new(|_| {}));
    let mut cases = 0u64;
    let mut bad: Vec<String> = vec![];
    let mut all: Vec<Outcome> = vec![];
    for out in &outputs {
        for exps in &expectation_sets {
            for code in [0i32, 2] {
                let testcase = TestCase { title: "t".into(), shell_expression: "cmd".into(), expectations: exps.iter().map(|e| maker.parse(e).unwrap()).collect(), exit_code: None, line_number: 3, config: TestCaseConfig::empty() };
                let output = Output { stderr: "".into(), stdout: out.clone().into(), exit_code: ExitStatus::Code(code) };
                let result = testcase.validate(&output);
                all.push(Outcome { location: Some("doc.md".into()), output, testcase, format: ParserType::Markdown, escaping: Escaper::default(), result });
            }
        }
    }
    // plus the verdicts that do not come from validate
    for r in [TestCaseError::Timeout, TestCaseError::Skipped] {
        let testcase = TestCase { title: "t".into(), shell_expression: "cmd".into(), expectations: vec![], exit_code: None, line_number: 3, config: TestCaseConfig::empty() };
        all.push(Outcome { location: Some("doc.md".into()), output: Output { stderr: "e\u{a0}\n".into(), stdout: "o\u{a0}\n".into(), exit_code: ExitStatus::Unknown }, testcase, format: ParserType::Markdown, escaping: Escaper::default(), result: Err(r) });
    }
    // lists of 1 .. n outcomes: every single outcome, and sliding windows of n
    let mut lists: Vec<Vec<&Outcome>> = all.iter().map(|o| vec![o]).collect();
    for w in 2..=n.max(1) { for i in 0..all.len().saturating_sub(w) { lists.push(all[i..i + w].iter().collect()); } }
    for list in &lists {
        for (name, r) in &renderers {
            cases += 1;
            let res = std::panic::catch_unwind(std::panic::AssertUnwindSafe(|| r.render(list)));
            let text = match res {
                Err(p) => { let msg = p.downcast_ref::<String>().cloned().or_else(|| p.downcast_ref::<&str>().map(|s| s.to_string())).unwrap_or_default();
                    bad.push(format!("{{\"class\":\"crash\",\"why\":{},\"outputs\":{}}}", jstr(&format!("C19: renderer {name} panics: {msg}")), jstr(&format!("{:?}", list.iter().map(|o| String::from_utf8_lossy(&o.output.stdout.to_bytes()).to_string()).collect::<Vec<_>>())))); if bad.len() > 6 { return (cases, bad); } continue; }
                Ok(Err(e)) => { bad.push(format!("{{\"class\":\"error\",\"why\":{},\"outputs\":{}}}", jstr(&format!("C19: renderer {name} fails: {e}")), jstr(&format!("{:?}", list.iter().map(|o| String::from_utf8_lossy(&o.output.stdout.to_bytes()).to_string()).collect::<Vec<_>>())))); if bad.len() > 6 { return (cases, bad); } continue; }
                Ok(Ok(t)) => t,
            };
            let mut why: Option<String> = None;
            match *name {
                "json" => match serde_json::from_str::<serde_json::Value>(&text) {
                    Ok(serde_json::Value::Array(a)) if a.len() == list.len() => {}
                    Ok(v) => why = Some(format!("json is not an array of {} entries: {}", list.len(), v.to_string().chars().take(80).collect::<String>())),
                    Err(e) => why = Some(format!("json is not well-formed: {e}")),
                },
                "yaml" => match serde_yaml::from_str::<serde_yaml::Value>(&text) {
                    Ok(serde_yaml::Value::Sequence(a)) if a.len() == list.len() => {}
                    Ok(_) => why = Some(format!("yaml is not a sequence of {} entries", list.len())),
                    Err(e) => why = Some(format!("yaml is not well-formed: {e}")),
                },
                _ => {
                    if list.iter().all(|o| o.result.is_ok()) && *name == "diff" && !text.trim().is_empty() { why = Some(format!("diff rendering of passing tests is not empty: {text:?}")); }
                    if *name == "diff" {
                        // "contains every unexpected output line": each one verbatim (lossy text, without its line feed) as a `+` line
                        for o in list.iter() {
                            if let Err(TestCaseError::MalformedOutput(d)) = &o.result {
                                for dl in &d.lines {
                                    if let DiffLine::UnexpectedLines { lines } = dl {
                                        for (_, l) in lines {
                                            let t = String::from_utf8_lossy(l);
                                            let t = t.strip_suffix('\n').unwrap_or(&t);
                                            // escaped renderings are written differently: only plain printable lines are compared
                                            if o.escaping.has_unprintable(t.as_bytes()) { continue; }
                                            if !text.contains(&format!("\n+{t}\n")) && !text.contains(&format!("\n+{t} (no-eol)\n")) && why.is_none() {
                                                why = Some(format!("diff rendering lacks the unexpected line {t:?}"));
                                            }
                                        }
                                    }
                                }
                            }
                        }
                    }
                }
            }
            if let Some(w) = why {
                bad.push(format!("{{\"class\":\"content\",\"why\":{},\"outputs\":{}}}", jstr(&format!("C19: {name}: {w}")), jstr(&format!("{:?}", list.iter().map(|o| String::from_utf8_lossy(&o.output.stdout.to_bytes()).to_string()).collect::<Vec<_>>()))));
                if bad.len() > 6 { return (cases, bad); }
            }
        }
    }
    // the `+` line the pretty renderer shows for an unexpected output line is an expectation for THAT line: read back, it matches it
    for out in [&b"foo\x01"[..], b"foo\x01\n", b"a\tb (no-eol)", b"plain", b"plain\n", b"tab\there"] {
        cases += 1;
        let testcase = TestCase { title: "t".into(), shell_expression: "cmd".into(), expectations: vec![], exit_code: None, line_number: 3, config: TestCaseConfig::empty() };
        let output = Output { stderr: "".into(), stdout: out.to_vec().into(), exit_code: ExitStatus::Code(0) };
        let result = testcase.validate(&output);
        let oc = Outcome { location: Some("doc.md".into()), output, testcase, format: ParserType::Markdown, escaping: Escaper::default(), result };
        let text = match std::panic::catch_unwind(std::panic::AssertUnwindSafe(|| PrettyMonochromeRenderer::new(PrettyColorRenderer::default()).render(&[&oc]))) { Ok(Ok(t)) => t, _ => continue };
        // the text after the gutter of the first `+` line
        let Some(shown) = text.lines().find_map(|l| l.split_once("| + ").map(|(_, t)| t.to_string()).or_else(|| l.split_once("|+ ").map(|(_, t)| t.to_string()))) else { continue };
        let shown = shown.trim_end().to_string();
        match maker.parse(&shown) {
            Ok(e) if e.matches(out) => {}
            Ok(_) => bad.push(format!("{{\"class\":\"shown-line\",\"why\":{},\"outputs\":{}}}", jstr(&format!("C19: pretty shows the unexpected line {:?} as `{shown}`, which as an expectation does not match that line", String::from_utf8_lossy(out))), jstr(&format!("{:?}", String::from_utf8_lossy(out))))),
            Err(_) => {}
        }
    }
    (cases, bad)
}

// ------------------------------------------------------------------------------------------------ executed and captured as is (C13)
/// BOUNDED: real bash processes. For every stdout payload x stderr payload x exit code x keep_crlf, through SubprocessRunner (one shell
/// per command) and through StatefulExecutor + BashRunner (the Markdown execution path): the command reaches the shell verbatim (quotes,
/// backslashes, `$`, globs are printed back), stdout and stderr are recorded on their own streams byte for byte -- except every CR LF
/// becomes LF unless keep_crlf --, the exit code is the command's; ANSI is removed only when asked; output written before a timeout is kept
fn cmd_c13(n: usize) -> (u64, Vec<String>) {
    use scrut::executors::bash_runner::BashRunner;
    use scrut::executors::context::Context;
    use scrut::executors::executor::Executor;
    use scrut::executors::runner::Runner;
    use scrut::executors::stateful_executor::StatefulExecutor;
    use scrut::executors::subprocess_runner::SubprocessRunner;
    let work = tempfile::tempdir().expect("work dir");
    let temp = tempfile::tempdir().expect("temp dir");
    let context = Context { work_directory: work.path().to_path_buf(), temp_directory: temp.path().to_path_buf(), file: std::path::PathBuf::from("doc.md"), config: DocumentConfig::default() };
    let bash = std::path::PathBuf::from("/bin/bash");
    let payloads: Vec<Vec<u8>> = vec![b"".to_vec(), b"a\n".to_vec(), b"a".to_vec(), b"a\r\nb\r\n".to_vec(), b"x\ry\r\n\rz\r".to_vec(), b"\r\n".to_vec(), b"\r\r\n".to_vec(), b"tab\there\n".to_vec(),
        b"\x1b[1mbold\x1b[0m\n".to_vec(), b"\xff\xfe\n".to_vec(), b"nul\x01\x7f\n".to_vec(), "\u{e9}\u{1f600}\n".as_bytes().to_vec(), b"  lead and trail  \n".to_vec(), b"\n\n\n".to_vec(), b"last\r".to_vec()];
    let mut payloads: Vec<Vec<u8>> = payloads.into_iter().take(5 + 4 * n).collect();
    // "text resembling scrut's internal markers": the divider of the single-script executor without / with a made-up salt, inside a line, unterminated
    for m in [&b"~~~~~~~~EXECDIVIDER::x\n"[..], b"~~~~~~~~EXECDIVIDER::salt::0::0\n", b"a ~~~~~~~~EXECDIVIDER:: b\n", b"z\n~~~~~~~~EXECDIVIDER::"] { payloads.push(m.to_vec()); }
    if n >= 3 { payloads.push(vec![b'a'; 1_500_000]); payloads.push([vec![b'b'; 700_000], b"\r\n".to_vec(), vec![b'c'; 700_000]].concat()); }
    let octal = |b: &[u8]| -> String { b.iter().map(|x| format!("\\{:03o}", x)).collect() };
    // the shell command that writes exactly these bytes to stdout: printf with octal escapes, long runs of one byte through head | tr
    let writes = |b: &[u8]| -> String {
        let mut parts: Vec<String> = vec![];
        let mut i = 0;
        let mut lit: Vec<u8> = vec![];
        while i < b.len() {
            let mut j = i;
            while j < b.len() && b[j] == b[i] { j += 1; }
            if j - i >= 1000 {
                if !lit.is_empty() { parts.push(format!("printf '{}'", octal(&lit))); lit.clear(); }
                parts.push(format!("head -c {} /dev/zero | tr '\\0' '\\{:03o}'", j - i, b[i]));
            } else { lit.extend_from_slice(&b[i..j]); }
            i = j;
        }
        if !lit.is_empty() || parts.is_empty() { parts.push(format!("printf '{}'", octal(&lit))); }
        format!("{{ {}; }}", parts.join("; "))
    };
    let drop_cr = |b: &[u8]| -> Vec<u8> { let mut v = vec![]; for i in 0..b.len() { if b[i] == 13 && i + 1 < b.len() && b[i + 1] == 10 { continue; } v.push(b[i]); } v };
    let mut cases = 0u64;
    let mut bad: Vec<String> = vec![];
    let mut report = |class: &str, why: String, cmd: &str, bad: &mut Vec<String>| { if bad.len() < 8 { bad.push(format!("{{\"class\":{},\"why\":{},\"command\":{}}}", jstr(class), jstr(&format!("C13: {why}")), jstr(cmd))); } };
    for (io, out) in payloads.iter().enumerate() {
        for err in [&payloads[(io + 3) % payloads.len()], &payloads[0]] {
            for code in [0i32, 7] {
                for keep in [None, Some(true)] {
                    let cmd = format!("{}; {} 1>&2; exit {code}", writes(out), writes(err));
                    let config = TestCaseConfig { keep_crlf: keep, ..TestCaseConfig::empty() };
                    let tc = TestCase { title: "t".into(), shell_expression: cmd.clone(), expectations: vec![], exit_code: None, line_number: 1, config };
                    let (wo, we) = if keep == Some(true) { (out.clone(), err.clone()) } else { (drop_cr(out), drop_cr(err)) };
                    // one shell per command
                    cases += 1;
                    match SubprocessRunner::new(bash.clone()).run("t", &tc, &context) {
                        Err(e) => report("runner-error", format!("SubprocessRunner fails: {e}"), &cmd, &mut bad),
                        Ok(o) => {
                            if o.stdout.to_bytes() != wo { report("stdout", format!("stdout recorded as {:?}, written {:?} (keep_crlf {keep:?})", String::from_utf8_lossy(&o.stdout.to_bytes()), String::from_utf8_lossy(out)), &cmd, &mut bad); }
                            if o.stderr.to_bytes() != we { report("stderr", format!("stderr recorded as {:?}, written {:?} (keep_crlf {keep:?})", String::from_utf8_lossy(&o.stderr.to_bytes()), String::from_utf8_lossy(err)), &cmd, &mut bad); }
                            if o.exit_code != ExitStatus::Code(code) { report("exit-code", format!("exit status {:?}, command exits {code}", o.exit_code), &cmd, &mut bad); }
                        }
                    }
                    // the Markdown execution path: stateful executor over bash runners (state carried in a directory)
                    if code == 0 || io % 3 == 0 {
                        cases += 1;
                        let ex = StatefulExecutor::new(Box::new(|state: &std::path::Path| Box::new(BashRunner::new(&std::path::PathBuf::from("/bin/bash"), state)) as Box<dyn Runner>));
                        match ex.execute_all(&[&tc], &context) {
                            Err(e) => report("executor-error", format!("StatefulExecutor fails: {e}"), &cmd, &mut bad),
                            Ok(os) => {
                                if os.len() != 1 { report("executor-error", format!("{} outputs for one test case", os.len()), &cmd, &mut bad); continue; }
                                if os[0].stdout.to_bytes() != wo { report("stdout", format!("(bash runner) stdout recorded as {:?}, written {:?} (keep_crlf {keep:?})", String::from_utf8_lossy(&os[0].stdout.to_bytes()), String::from_utf8_lossy(out)), &cmd, &mut bad); }
                                if os[0].stderr.to_bytes() != we { report("stderr", format!("(bash runner) stderr recorded as {:?}, written {:?}", String::from_utf8_lossy(&os[0].stderr.to_bytes()), String::from_utf8_lossy(err)), &cmd, &mut bad); }
                                if os[0].exit_code != ExitStatus::Code(code) { report("exit-code", format!("(bash runner) exit status {:?}, command exits {code}", os[0].exit_code), &cmd, &mut bad); }
                            }
                        }
                    }
                }
            }
        }
    }
    // the single-script (Cram) executor: all payload commands in ONE script, each test case gets back exactly its own output
    {
        use scrut::executors::bash_script_executor::BashScriptExecutor;
        for (stream, redirect) in [("stdout", ""), ("stderr", " 1>&2")] {
            let tcs: Vec<TestCase> = payloads.iter().enumerate().map(|(i, p)| TestCase { title: "t".into(), shell_expression: format!("{}{redirect}; (exit {})", writes(p), i % 3),
                expectations: vec![], exit_code: None, line_number: i + 1, config: TestCaseConfig { keep_crlf: Some(true), ..TestCaseConfig::empty() } }).collect();
            let refs: Vec<&TestCase> = tcs.iter().collect();
            cases += tcs.len() as u64;
            match BashScriptExecutor::new(&bash).execute_all(&refs, &context) {
                Err(e) => report("executor-error", format!("BashScriptExecutor fails: {e}"), "(script of all payload commands)", &mut bad),
                Ok(os) => {
                    if os.len() != tcs.len() { report("executor-error", format!("{} outputs for {} test cases", os.len(), tcs.len()), "(script)", &mut bad); }
                    for (i, (o, p)) in os.iter().zip(payloads.iter()).enumerate() {
                        let got = if stream == "stdout" { o.stdout.to_bytes() } else { o.stderr.to_bytes() };
                        if &got != p { report("script-output", format!("single-script executor: {stream} of test case {} recorded as {:?}, written {:?}", i + 1, String::from_utf8_lossy(&got), String::from_utf8_lossy(p)), &tcs[i].shell_expression, &mut bad); }
                        if o.exit_code != ExitStatus::Code((i % 3) as i32) { report("exit-code", format!("single-script executor: exit status {:?} for test case {}, command exits {}", o.exit_code, i + 1, i % 3), &tcs[i].shell_expression, &mut bad); }
                    }
                }
            }
        }
    }
    // state carried between test cases does not leak into the recorded output of later ones
    {
        cases += 1;
        let cmds = ["pushd / >/dev/null; pushd /tmp >/dev/null; export FOO=bar; alias ll=ls; shopt -s nullglob", "printf 'x'", "printf '%s' \"$FOO\"; dirs -p | wc -l | tr -d ' \\n'"];
        let tcs: Vec<TestCase> = cmds.iter().enumerate().map(|(i, c)| TestCase { title: "t".into(), shell_expression: c.to_string(), expectations: vec![], exit_code: None, line_number: i + 1, config: TestCaseConfig::empty() }).collect();
        let refs: Vec<&TestCase> = tcs.iter().collect();
        let ex = StatefulExecutor::new(Box::new(|state: &std::path::Path| Box::new(BashRunner::new(&std::path::PathBuf::from("/bin/bash"), state)) as Box<dyn Runner>));
        match ex.execute_all(&refs, &context) {
            Ok(os) if os.len() == 3 && os[0].stdout.to_bytes().is_empty() && os[1].stdout.to_bytes() == b"x".to_vec() && os[1].stderr.to_bytes().is_empty() && os[2].stdout.to_bytes() == b"bar3".to_vec() => {}
            Ok(os) => report("state-leak", format!("outputs of a 3-step sequence: {:?}", os.iter().map(|o| (String::from_utf8_lossy(&o.stdout.to_bytes()).to_string(), String::from_utf8_lossy(&o.stderr.to_bytes()).to_string())).collect::<Vec<_>>()), cmds[0], &mut bad),
            Err(e) => report("executor-error", format!("StatefulExecutor fails: {e}"), cmds[0], &mut bad),
        }
    }
    // the command reaches the shell verbatim
    for text in ["it's", "a \"quoted\" word", "back\\slash \\n", "$HOME is not expanded in single quotes", "star * and ? and [a-z]", "semi; colon && and || pipe |", "{state_directory} {work_directory}", "trailing space  ", "%s %d",
        // the placeholders of the runner's own script template
        "{persist_state} {excluded_variables}", "{name} {shell_expression} {state_directory}"] {
        cases += 1;
        let quoted = format!("'{}'", text.replace('\'', "'\\''"));
        let cmd = format!("printf '%s\\n' {quoted}");
        let tc = TestCase { title: "t".into(), shell_expression: cmd.clone(), expectations: vec![], exit_code: None, line_number: 1, config: TestCaseConfig::empty() };
        let ex = StatefulExecutor::new(Box::new(|state: &std::path::Path| Box::new(BashRunner::new(&std::path::PathBuf::from("/bin/bash"), state)) as Box<dyn Runner>));
        match ex.execute_all(&[&tc], &context) {
            Ok(os) if os.len() == 1 && os[0].stdout.to_bytes() == format!("{text}\n").into_bytes() => {}
            Ok(os) => report("verbatim", format!("the shell printed {:?} for the text {text:?}", os.first().map(|o| String::from_utf8_lossy(&o.stdout.to_bytes()).to_string())), &cmd, &mut bad),
            Err(e) => report("executor-error", format!("StatefulExecutor fails: {e}"), &cmd, &mut bad),
        }
    }
    // with strip_ansi_escaping set, escape sequences are removed -- nothing else (TAB, a lone CR, a kept CR LF stay)
    {
        cases += 1;
        let cmd = "printf 'a\\r\\nb\\tc\\rd\\033[1m!\\033[0m\\n'";
        let tc = TestCase { title: "t".into(), shell_expression: cmd.into(), expectations: vec![], exit_code: None, line_number: 1, config: TestCaseConfig { strip_ansi_escaping: Some(true), keep_crlf: Some(true), ..TestCaseConfig::empty() } };
        match SubprocessRunner::new(bash.clone()).run("t", &tc, &context) {
            Ok(o) if o.stdout.to_bytes() == b"a\r\nb\tc\rd!\n".to_vec() => {}
            Ok(o) => report("ansi-strips-more", format!("strip_ansi_escaping with keep_crlf: `a CR LF b TAB c CR d ESC[1m ! ESC[0m LF` recorded as {:?}; only the two escape sequences may go", String::from_utf8_lossy(&o.stdout.to_bytes())), cmd, &mut bad),
            Err(e) => report("runner-error", format!("{e}"), cmd, &mut bad),
        }
    }
    // "for outputs of any size": 200 000 CR LF lines (600 kB) -- in a process of its own, which must not die
    {
        cases += 1;
        let exe = std::env::current_exe().expect("own path");
        match std::process::Command::new(&exe).arg("c13-deep").output() {
            Ok(o) if o.status.success() && String::from_utf8_lossy(&o.stdout).contains("\"violations\":[]") => {}
            Ok(o) => report("many-crlf", format!("200000 lines ending in CR LF: {} {}", if o.status.code().is_none() { "the process was killed by a signal (stack overflow in a recursive function?)".to_string() } else { format!("exit {:?}", o.status.code()) },
                String::from_utf8_lossy(&o.stdout).chars().take(200).collect::<String>()), "yes $'x\\r' | head -n 200000", &mut bad),
            Err(e) => report("runner-error", format!("{e}"), "c13-deep", &mut bad),
        }
    }
    // ANSI only when asked; partial output before a timeout keeps stream and transformations
    {
        cases += 2;
        let cmd = "printf '\\033[1mB\\033[0m\\r\\n'";
        for strip in [None, Some(true)] {
            let tc = TestCase { title: "t".into(), shell_expression: cmd.into(), expectations: vec![], exit_code: None, line_number: 1, config: TestCaseConfig { strip_ansi_escaping: strip, ..TestCaseConfig::empty() } };
            let want: Vec<u8> = if strip == Some(true) { b"B\n".to_vec() } else { b"\x1b[1mB\x1b[0m\n".to_vec() };
            match SubprocessRunner::new(bash.clone()).run("t", &tc, &context) {
                Ok(o) if o.stdout.to_bytes() == want => {}
                Ok(o) => report("ansi", format!("strip_ansi_escaping {strip:?}: recorded {:?}", String::from_utf8_lossy(&o.stdout.to_bytes())), cmd, &mut bad),
                Err(e) => report("runner-error", format!("{e}"), cmd, &mut bad),
            }
        }
        cases += 1;
        let cmd = "printf 'ONE\\r\\n'; printf 'TWO\\r\\n' 1>&2; sleep 3; echo NEVER";
        let t = std::time::Duration::from_millis(400);
        let tc = TestCase { title: "t".into(), shell_expression: cmd.into(), expectations: vec![], exit_code: None, line_number: 1, config: TestCaseConfig { timeout: Some(t), ..TestCaseConfig::empty() } };
        match SubprocessRunner::new(bash.clone()).run("t", &tc, &context) {
            Ok(o) if o.exit_code == ExitStatus::Timeout(t) && o.stdout.to_bytes() == b"ONE\n".to_vec() && o.stderr.to_bytes() == b"TWO\n".to_vec() => {}
            Ok(o) => report("timeout", format!("after a timeout: status {:?}, stdout {:?}, stderr {:?}", o.exit_code, String::from_utf8_lossy(&o.stdout.to_bytes()), String::from_utf8_lossy(&o.stderr.to_bytes())), cmd, &mut bad),
            Err(e) => report("runner-error", format!("{e}"), cmd, &mut bad),
        }
    }
    (cases, bad)
}

// ------------------------------------------------------------------------------------------------ which limit is in effect (C14)
/// BOUNDED: real bash processes through StatefulExecutor + BashRunner: the smaller of the per-test-case timeout and what is left of
/// the document timeout is the one that fires (and is reported as such), a document timeout of 0 means none, no timeout means none
fn cmd_c14(only: Option<(usize, usize)>) -> (u64, Vec<String>) {
    use scrut::executors::bash_runner::BashRunner;
    use scrut::executors::context::Context;
    use scrut::executors::error::{ExecutionError, ExecutionTimeout};
    use scrut::executors::executor::Executor;
    use scrut::executors::runner::Runner;
    use scrut::executors::stateful_executor::StatefulExecutor;
    use std::time::Duration;
    let ms = Duration::from_millis;
    // (per-test timeout, document timeout, command, expected). Limits that also apply to the quick `true` test cases are long enough (1.2 s)
    // for a bash start on a loaded machine; the slow command (5 s) must be cut off within 4 s
    let table: Vec<(Option<Duration>, Option<Duration>, &'static str, &'static str)> = vec![
        (Some(ms(1200)), Some(ms(9000)), "sleep 5", "index"),
        (Some(ms(9000)), Some(ms(1200)), "sleep 5", "total"),
        (Some(ms(1200)), None, "sleep 5", "index"),
        (None, Some(ms(1200)), "sleep 5", "total"),
        (None, Some(ms(0)), "sleep 0.5", "none"),
        (None, Some(ms(9000)), "sleep 0.3", "none"),
        (Some(ms(9000)), Some(ms(9000)), "true", "none"),
        // a per-test-case timeout is a limit of its own: also when the document is unlimited, and when both limits are the same length
        (Some(ms(1200)), Some(ms(0)), "sleep 5", "index"),
        (Some(ms(9000)), Some(ms(0)), "sleep 0.3", "none"),
    ];
    let run_one = move |tt: Option<Duration>, dt: Option<Duration>, cmd: &'static str, want: &'static str, lead: usize| -> Option<String> {
        let work = tempfile::tempdir().expect("work dir");
        let temp = tempfile::tempdir().expect("temp dir");
        let mut context = Context { work_directory: work.path().to_path_buf(), temp_directory: temp.path().to_path_buf(), file: std::path::PathBuf::from("doc.md"),
            config: DocumentConfig { total_timeout: dt, ..DocumentConfig::default() } };
        // second pass over the table (lead == 1): the per-test-case limit is not written on the test cases but comes from the document's
        // `defaults` in the execution context (the layer the executor itself applies): it must be in effect when the limit is computed
        let from_defaults = lead == 1 && tt.is_some();
        if from_defaults { context.config.defaults.timeout = tt; }
        let tt = if from_defaults { None } else { tt };
        let mut tcs = vec![];
        for _ in 0..lead { tcs.push(TestCase { title: "t".into(), shell_expression: "true".into(), expectations: vec![], exit_code: None, line_number: 1, config: TestCaseConfig { timeout: tt, ..TestCaseConfig::empty() } }); }
        tcs.push(TestCase { title: "t".into(), shell_expression: cmd.into(), expectations: vec![], exit_code: None, line_number: 1 + lead, config: TestCaseConfig { timeout: tt, ..TestCaseConfig::empty() } });
        tcs.push(TestCase { title: "t".into(), shell_expression: "true".into(), expectations: vec![], exit_code: None, line_number: 2 + lead, config: TestCaseConfig { timeout: tt, ..TestCaseConfig::empty() } });
        let refs: Vec<&TestCase> = tcs.iter().collect();
        let ex = StatefulExecutor::new(Box::new(|state: &std::path::Path| Box::new(BashRunner::new(&std::path::PathBuf::from("/bin/bash"), state)) as Box<dyn Runner>));
        let started = std::time::Instant::now();
        let got = match ex.execute_all(&refs, &context) {
            Ok(os) if os.len() == tcs.len() => "none".to_string(),
            Ok(os) => format!("{} outputs for {} test cases", os.len(), tcs.len()),
            // the outputs stop at the aborted test case: nothing after it ran
            Err(ExecutionError::Timeout(ExecutionTimeout::Index(i), os)) if i == lead && os.len() == lead + 1 => "index".to_string(),
            Err(ExecutionError::Timeout(ExecutionTimeout::Total, os)) if os.len() == lead + 1 => "total".to_string(),
            Err(ExecutionError::Timeout(t, os)) => format!("timeout {t:?} with {} outputs", os.len()),
            Err(e) => format!("error {e}"),
        };
        let took = started.elapsed();
        // the limit bounds the run: the 5 s command is cut off well before it ends
        let late = want != "none" && took > ms(4000);
        if got != want || late {
            Some(format!("{{\"why\":{},\"case\":{}}}", jstr(&format!("C14: test timeout {tt:?}{}, document timeout {dt:?}, `{cmd}` as test case {}: outcome {got} after {took:?}, expected {want}{}", if from_defaults { " (from the context defaults)" } else { "" }, lead + 1, if late { " within the limit" } else { "" })), jstr(cmd)))
        } else { None }
    };
    // the rows are independent executions: each runs in a process of its own (`verif-replay c14 <row> <lead>`; executors running side by
    // side in ONE process disturb each other's child handling), all at the same time
    if let Some((row, lead)) = only {
        let (tt, dt, cmd, want) = table[row];
        return (1, run_one(tt, dt, cmd, want, lead).into_iter().collect());
    }
    let exe = std::env::current_exe().expect("own path");
    let mut children = vec![];
    for row in 0..table.len() {
        // the slow test case first, or after a quick one that uses up none of the limits
        for lead in [0usize, 1] {
            children.push(std::process::Command::new(&exe).args(["c14", &row.to_string(), &lead.to_string()]).stdout(std::process::Stdio::piped()).spawn().expect("spawn row"));
        }
    }
    let cases = children.len() as u64;
    let mut bad = vec![];
    for c in children {
        let out = c.wait_with_output().expect("row output");
        let text = String::from_utf8_lossy(&out.stdout).to_string();
        match serde_json::from_str::<serde_json::Value>(text.trim()) {
            Ok(v) => for w in v["violations"].as_array().cloned().unwrap_or_default() { bad.push(w.to_string()); },
            Err(_) => bad.push(format!("{{\"why\":{},\"case\":\"\"}}", jstr(&format!("C14: a row process gave no result: {text:?}")))),
        }
    }
    (cases, bad)
}

// ------------------------------------------------------------------------------------------------ the skip code (C15)
/// BOUNDED: real bash processes. Every sequence of up to `n` test cases with exit codes from {0, 1, 80, 81}, skip code unset (80) or
/// configured 81, through StatefulExecutor + BashRunner and through BashScriptExecutor: the document is reported as skipped
/// (ExecutionError::Skipped, index of the first test case that exits with its skip code) exactly when some test case exits with the skip
/// code; otherwise every test case gets its own exit code back
fn cmd_c15(n: usize) -> (u64, Vec<String>) {
    use scrut::executors::bash_runner::BashRunner;
    use scrut::executors::bash_script_executor::BashScriptExecutor;
    use scrut::executors::context::Context;
    use scrut::executors::error::ExecutionError;
    use scrut::executors::executor::Executor;
    use scrut::executors::runner::Runner;
    use scrut::executors::stateful_executor::StatefulExecutor;
    let work = tempfile::tempdir().expect("work dir");
    let temp = tempfile::tempdir().expect("temp dir");
    let context = Context { work_directory: work.path().to_path_buf(), temp_directory: temp.path().to_path_buf(), file: std::path::PathBuf::from("doc.md"), config: DocumentConfig::default() };
    let codes = [0i32, 1, 80, 81];
    let mut cases = 0u64;
    let mut bad = vec![];
    let mut seqs: Vec<Vec<i32>> = vec![vec![]];
    let mut all: Vec<Vec<i32>> = vec![];
    for _ in 0..n.max(1) {
        seqs = seqs.iter().flat_map(|s| codes.iter().map(move |c| { let mut t = s.clone(); t.push(*c); t })).collect();
        all.extend(seqs.iter().cloned());
    }
    let stateful = || StatefulExecutor::new(Box::new(|state: &std::path::Path| Box::new(BashRunner::new(&std::path::PathBuf::from("/bin/bash"), state)) as Box<dyn Runner>));
    let show = |res: scrut::executors::executor::Result<Vec<scrut::output::Output>>| -> Result<Vec<i32>, String> {
        match res {
            Ok(os) => Ok(os.iter().map(|o| match o.exit_code { ExitStatus::Code(c) => c, _ => -999 }).collect()),
            Err(ExecutionError::Skipped(i)) => Err(format!("skipped at {i}")),
            Err(e) => Err(format!("error {e}")),
        }
    };
    for seq in &all {
        for skip in [None, Some(81i32)] {
            let skip_code = skip.unwrap_or(80);
            let want: Result<Vec<i32>, usize> = match seq.iter().position(|c| *c == skip_code) { Some(i) => Err(i), None => Ok(seq.clone()) };
            let tcs: Vec<TestCase> = seq.iter().enumerate().map(|(i, c)| TestCase { title: "t".into(), shell_expression: format!("echo out{i}; (exit {c})"), expectations: vec![], exit_code: None,
                line_number: i + 1, config: TestCaseConfig { skip_document_code: skip, ..TestCaseConfig::empty() } }).collect();
            let refs: Vec<&TestCase> = tcs.iter().collect();
            for which in ["stateful", "script"] {
                cases += 1;
                let got = show(if which == "stateful" { stateful().execute_all(&refs, &context) } else { BashScriptExecutor::new(&std::path::PathBuf::from("/bin/bash")).execute_all(&refs, &context) });
                let ok = match (&want, &got) {
                    (Ok(w), Ok(g)) => w == g,
                    // the single-script executor runs the whole script first: it reports the first test case with the skip code as well
                    (Err(i), Err(g)) => g == &format!("skipped at {i}"),
                    _ => false,
                };
                if !ok && bad.len() < 8 {
                    bad.push(format!("{{\"why\":{},\"case\":{}}}", jstr(&format!("C15: {which} executor, exit codes {seq:?}, skip code {skip_code}: got {got:?}, expected {}", match &want { Ok(w) => format!("the exit codes {w:?}"), Err(i) => format!("skipped at {i}") })), jstr(&format!("{seq:?}"))));
                }
            }
            // the single-script executor when a LATER test case ends the shared shell (`exit 3`): a test case that exited with the skip
            // code before that still skips the document; without one the document is not skipped (3 is not a skip code)
            {
                cases += 1;
                let mut tcs2 = tcs.clone();
                for (i, e) in ["exit 3", "echo never"].iter().enumerate() {
                    tcs2.push(TestCase { title: "t".into(), shell_expression: e.to_string(), expectations: vec![], exit_code: None, line_number: seq.len() + i + 1, config: TestCaseConfig { skip_document_code: skip, ..TestCaseConfig::empty() } });
                }
                let refs2: Vec<&TestCase> = tcs2.iter().collect();
                let got = show(BashScriptExecutor::new(&std::path::PathBuf::from("/bin/bash")).execute_all(&refs2, &context));
                let ok = match (&want, &got) {
                    (Err(i), Err(g)) => g == &format!("skipped at {i}"),
                    (Err(_), Ok(_)) => false,
                    (Ok(_), Err(g)) => !g.starts_with("skipped"),
                    (Ok(_), Ok(_)) => true,
                };
                if !ok && bad.len() < 8 {
                    bad.push(format!("{{\"why\":{},\"case\":{}}}", jstr(&format!("C15: script executor, exit codes {seq:?} followed by a test case that runs `exit 3`, skip code {skip_code}: got {got:?}, expected {}", match &want { Ok(_) => "no skip".to_string(), Err(i) => format!("skipped at {i}") })), jstr(&format!("{seq:?}+exit3"))));
                }
            }
            // the per-process executor with a document-wide skip code (1) that one test case overrides: each test case is judged by
            // ITS skip code (the override where there is one, else the document's), exactly as the parser hands the configuration down
            for over in 0..seq.len() {
                cases += 1;
                let own = |i: usize| if i == over { skip_code } else { 1 };
                let want: Result<Vec<i32>, usize> = match seq.iter().enumerate().position(|(i, c)| *c == own(i)) { Some(i) => Err(i), None => Ok(seq.clone()) };
                let mut context2 = Context { work_directory: work.path().to_path_buf(), temp_directory: temp.path().to_path_buf(), file: std::path::PathBuf::from("doc.md"), config: DocumentConfig::default() };
                context2.config.defaults.skip_document_code = Some(1);
                let tcs3: Vec<TestCase> = seq.iter().enumerate().map(|(i, c)| TestCase { title: "t".into(), shell_expression: format!("echo out{i}; (exit {c})"), expectations: vec![], exit_code: None,
                    line_number: i + 1, config: TestCaseConfig { skip_document_code: Some(own(i)), ..TestCaseConfig::empty() } }).collect();
                let refs3: Vec<&TestCase> = tcs3.iter().collect();
                let got = show(stateful().execute_all(&refs3, &context2));
                let ok = match (&want, &got) { (Ok(w), Ok(g)) => w == g, (Err(i), Err(g)) => g == &format!("skipped at {i}"), _ => false };
                if !ok && bad.len() < 8 {
                    bad.push(format!("{{\"why\":{},\"case\":{}}}", jstr(&format!("C15: stateful executor, exit codes {seq:?}, document skip code 1, test case {} overrides it with {skip_code}: got {got:?}, expected {}", over + 1, match &want { Ok(w) => format!("the exit codes {w:?}"), Err(i) => format!("skipped at {i}") })), jstr(&format!("{seq:?}/doc=1/tc{}={skip_code}", over + 1))));
                }
            }
        }
    }
    (cases, bad)
}


// ------------------------------------------------------------------------------------------------ line classification leaves (C06 / C07)
/// independent reading of the exit-code line: `[` + one or more ASCII digits + `]`, nothing else on the line, value fits i32
fn leaf_exit_ref(line: &str) -> Option<i32> {
    let inner = line.strip_prefix('[')?.strip_suffix(']')?;
    if inner.is_empty() || !inner.bytes().all(|b| b.is_ascii_digit()) { return None; }
    inner.parse::<i32>().ok()
}
/// independent reading of a title line (trimmed): a paragraph line starts with a letter (any script); a header is `#`s, whitespace, text
fn leaf_title_ref(line: &str) -> Option<String> {
    let t = line.trim();
    if t.chars().next().map_or(false, |c| c.is_alphabetic()) { return Some(t.to_string()); }
    let rest = t.trim_start_matches('#');
    if rest.len() == t.len() { return None; }
    let text = rest.trim_start();
    if text.len() == rest.len() || text.is_empty() { return None; }
    Some(text.to_string())
}
/// BOUNDED: the two regex-based leaves the C06/C07 proofs keep abstract (exit_code_of, title_of), through the real parsers: every
/// candidate exit-code line as the last body line of a scrut block / Cram test, every candidate title line as the paragraph before a block
fn cmd_leaves(which: &str) -> (u64, Vec<String>) {
    use scrut::parsers::cram::CramParser;
    use scrut::parsers::markdown::{MarkdownParser, DEFAULT_MARKDOWN_LANGUAGES};
    use scrut::parsers::parser::Parser;
    let exits = ["[0]", "[1]", "[99]", "[255]", "[01]", "[2147483647]", "[2147483648]", "[99999999999]", "[-1]", "[+3]", "[-0]", "[ 1]", "[1 ]", "[]", "[a]", "[1a]", "[a1]", "[1][2]", "[[1]]",
        "[1] ", "x[1]", "[1]x", "[١]", "[1.0]", "[0x1]", "(1)", "[1", "1]"];
    let titles = ["plain words", "Überprüfe die Ausgabe", "Привет мир", "日本語のテスト", "élan vital", "  indented text  ", "# Heading", "## Ünï code", "###\tTabbed", "#  two spaces", "#nospace",
        "#", "# ", "1. numbered", "- list item", "> quote", "`code` first", "_emph_ first", "(paren)", "42", "ßtraße"];
    let mut n = 0u64;
    let mut bad: Vec<String> = vec![];
    let mut report = |class: &str, why: String, doc: &str, bad: &mut Vec<String>| { if bad.len() < 8 { bad.push(format!("{{\"class\":{},\"why\":{},\"case\":{}}}", jstr(class), jstr(&why), jstr(doc))); } };
    std::panic::set_hook(Box::new(|_| {}));
    for x in exits {
        for format in ["markdown", "cram"] {
            if format != which { continue; }
            n += 1;
            let doc = if format == "markdown" { format!("# t\n\n```scrut\n$ cmd\nout\n{x}\n```\n") } else { format!("t\n  $ cmd\n  out\n  {x}\n") };
            let maker = std::sync::Arc::new(ExpectationMaker::new(RuleRegistry::default()));
            let r = std::panic::catch_unwind(std::panic::AssertUnwindSafe(|| if format == "markdown" { MarkdownParser::new(maker, DEFAULT_MARKDOWN_LANGUAGES, None).parse(&doc) } else { CramParser::new(maker, 2).parse(&doc) }));
            let want = leaf_exit_ref(x);
            match r {
                Err(_) => report("exit-code-line", format!("{format}: parse panics on a body line {x:?}"), &doc, &mut bad),
                Ok(Err(e)) => report("exit-code-line", format!("{format}: body line {x:?}: parse error {e}"), &doc, &mut bad),
                Ok(Ok((_, tcs))) => {
                    let ok = tcs.len() == 1 && tcs[0].exit_code == want && tcs[0].expectations.len() == if want.is_some() { 1 } else { 2 }
                        && tcs[0].expectations[0].original_string() == "out" && (want.is_some() || tcs[0].expectations[1].original_string() == x);
                    if !ok {
                        report("exit-code-line", format!("{format}: body line {x:?} read as exit code {:?} with expectations {:?}; expected exit code {want:?} and {}", tcs.first().and_then(|t| t.exit_code),
                            tcs.first().map(|t| t.expectations.iter().map(|e| e.original_string()).collect::<Vec<_>>()), if want.is_some() { "only the expectation `out`".to_string() } else { format!("the expectations `out`, {x:?}") }), &doc, &mut bad);
                    }
                }
            }
        }
    }
    // Cram: lines that are not "following the shell expression" do not belong to the next command
    if which == "cram" {
        for (class, doc, cmd) in [("stray-exit-code", "Disabled for now\n$ false\n  [1]\n\nNext test\n  $ true\n", "true"), ("stray-exit-code", "  [1]\n  $ true\n", "true"),
            ("stray-line-before-command", "  stray\n  $ echo hi\n  hi\n", "echo hi"), ("stray-line-before-command", "Title\n  \n  $ echo hi\n  hi\n", "echo hi")] {
            n += 1;
            let maker = std::sync::Arc::new(ExpectationMaker::new(RuleRegistry::default()));
            match std::panic::catch_unwind(std::panic::AssertUnwindSafe(|| CramParser::new(maker, 2).parse(doc))) {
                Err(_) => report(class, format!("cram: parse panics"), doc, &mut bad),
                Ok(Err(_)) => {}
                Ok(Ok((_, tcs))) => {
                    let t = tcs.iter().find(|t| t.shell_expression == cmd);
                    let exps: Vec<String> = t.map(|t| t.expectations.iter().map(|e| e.original_string()).collect()).unwrap_or_default();
                    let ok = t.is_some() && t.unwrap().exit_code.is_none() && exps.iter().all(|e| e == "hi");
                    if !ok { report(class, format!("cram: the command `{cmd}` is read with exit code {:?} and expectations {exps:?}: a line written BEFORE the command (not after it) was given to it; expected an error or exactly the lines written after the command", t.and_then(|t| t.exit_code)), doc, &mut bad); }
                }
            }
        }
    }
    // Cram is whitespace-significant (round 12): every body line made of k >= 2 spaces followed by `rest` is the expectation written
    // after the two-space indentation -- whitespace-only ones included, trailing whitespace kept -- and does not end the test
    if which == "cram" {
        for ws in ["  ", "   ", "    ", "  \t", "  x  ", "  x \t", "   x"] {
            for (before, after) in [(vec![], vec!["b"]), (vec!["a"], vec!["b"]), (vec!["a"], vec![])] {
                n += 1;
                let mut want: Vec<String> = before.iter().map(|s| s.to_string()).collect();
                want.push(ws[2..].to_string());
                want.extend(after.iter().map(|s| s.to_string()));
                let doc = format!("T\n  $ echo x\n{}\n", want.iter().map(|l| format!("  {l}")).collect::<Vec<_>>().join("\n"));
                let maker = std::sync::Arc::new(ExpectationMaker::new(RuleRegistry::default()));
                match std::panic::catch_unwind(std::panic::AssertUnwindSafe(|| CramParser::new(maker, 2).parse(&doc))) {
                    Err(_) => report("whitespace-line", format!("cram: parse panics"), &doc, &mut bad),
                    Ok(Err(e)) => report("whitespace-line", format!("cram: parse error {e}"), &doc, &mut bad),
                    Ok(Ok((_, tcs))) => {
                        let exps: Vec<String> = tcs.first().map(|t| t.expectations.iter().map(|e| e.original_string()).collect()).unwrap_or_default();
                        if !(tcs.len() == 1 && tcs[0].shell_expression == "echo x" && tcs[0].title == "T" && exps == want) {
                            report("whitespace-line", format!("cram: {} test case(s), the first with title {:?} and expectations {exps:?}; written: one test `echo x` titled \"T\" with the expectation lines {want:?} (indentation removed, inner and trailing whitespace kept)", tcs.len(), tcs.first().map(|t| t.title.clone())), &doc, &mut bad);
                        }
                    }
                }
            }
        }
    }
    for t in titles {
        if which != "markdown" { continue; }
        n += 1;
        let doc = format!("# Setup\n\n{t}\n\n```scrut\n$ second\n```\n");
        let maker = std::sync::Arc::new(ExpectationMaker::new(RuleRegistry::default()));
        let r = std::panic::catch_unwind(std::panic::AssertUnwindSafe(|| MarkdownParser::new(maker, DEFAULT_MARKDOWN_LANGUAGES, None).parse(&doc)));
        let want = leaf_title_ref(t).unwrap_or_else(|| "Setup".to_string());
        match r {
            Err(_) => report("title-line", format!("parse panics on the line {t:?}"), &doc, &mut bad),
            Ok(Err(e)) => report("title-line", format!("line {t:?}: parse error {e}"), &doc, &mut bad),
            Ok(Ok((_, tcs))) => {
                if !(tcs.len() == 1 && tcs[0].title == want && tcs[0].shell_expression == "second" && tcs[0].line_number == 6) {
                    report("title-line", format!("the test after the heading `# Setup` and the line {t:?} has the title {:?} (line {:?}), expected {want:?} (nearest preceding heading or paragraph)", tcs.first().map(|t| t.title.clone()), tcs.first().map(|t| t.line_number)), &doc, &mut bad);
                }
            }
        }
    }
    (n, bad)
}

// ------------------------------------------------------------------------------------------------ glob semantics (C04)
/// `?` = exactly one character, `*` = any run of characters, everything else stands for itself
fn glob_ref(g: &[char], l: &[char]) -> bool {
    match g.first() {
        None => l.is_empty(),
        Some('*') => (0..=l.len()).any(|k| glob_ref(&g[1..], &l[k..])),
        Some('?') => !l.is_empty() && glob_ref(&g[1..], &l[1..]),
        Some(c) => l.first() == Some(c) && glob_ref(&g[1..], &l[1..]),
    }
}
/// BOUNDED: validates the assumed matching semantics of the wildmatch crate (GlobRule) and of the regex the Cram glob is translated
/// to (CramGlobRule): every glob of up to `n` characters over {a, é, ?, *} against every line of up to 3 characters over {a, b, é, 😀}
fn cmd_glob(n: usize) -> (u64, Vec<String>) {
    use scrut::rules::glob::GlobRule;
    use scrut::rules::glob_cram::CramGlobRule;
    use scrut::rules::rule::RuleMaker;
    let ga = ['a', 'é', '?', '*'];
    let la = ['a', 'b', 'é', '😀'];
    let words = |alpha: &[char], max: usize| { let mut all: Vec<Vec<char>> = vec![vec![]]; let mut cur: Vec<Vec<char>> = vec![vec![]];
        for _ in 0..max { cur = cur.iter().flat_map(|w| alpha.iter().map(move |c| { let mut t = w.clone(); t.push(*c); t })).collect(); all.extend(cur.iter().cloned()); } all };
    let globs = words(&ga, n.max(1));
    let lines = words(&la, 3);
    let mut cases = 0u64;
    let mut bad = vec![];
    for g in &globs {
        let gs: String = g.iter().collect();
        for (name, rule) in [("glob (wildmatch)", GlobRule::make(&gs)), ("glob (cram)", CramGlobRule::make(&gs))] {
            let rule = match rule { Ok(r) => r, Err(e) => { if bad.len() < 8 { bad.push(format!("{{\"why\":{},\"case\":{}}}", jstr(&format!("C04 {name}: the glob {gs:?} is rejected: {e}")), jstr(&gs))); } continue; } };
            for l in &lines {
                cases += 1;
                let ls: String = l.iter().collect();
                let want = glob_ref(g, l);
                for nl in ["\n", ""] {
                    let got = rule.matches(format!("{ls}{nl}").as_bytes());
                    if got != want && bad.len() < 8 {
                        bad.push(format!("{{\"why\":{},\"case\":{}}}", jstr(&format!("C04 {name}: glob {gs:?} {} the line {ls:?}{}, expected {}", if got { "matches" } else { "does not match" }, if nl.is_empty() { " (no final newline)" } else { "" }, if want { "a match" } else { "no match" })), jstr(&format!("{gs} / {ls}"))));
                    }
                }
            }
        }
    }
    (cases, bad)
}


/// probe (observations only): marker-like and large outputs through both executors
fn cmd_c13_probe() -> (u64, Vec<String>) {
    use scrut::executors::bash_runner::BashRunner;
    use scrut::executors::bash_script_executor::BashScriptExecutor;
    use scrut::executors::context::Context;
    use scrut::executors::executor::Executor;
    use scrut::executors::runner::Runner;
    use scrut::executors::stateful_executor::StatefulExecutor;
    let work = tempfile::tempdir().expect("work dir");
    let temp = tempfile::tempdir().expect("temp dir");
    let context = Context { work_directory: work.path().to_path_buf(), temp_directory: temp.path().to_path_buf(), file: std::path::PathBuf::from("doc.md"), config: DocumentConfig::default() };
    let cmds = ["echo '~~~~~~~~EXECDIVIDER::x'", "echo '~~~~~~~~EXECDIVIDER::salt::0::0'", "echo 'a ~~~~~~~~EXECDIVIDER:: b'", "printf '~~~~~~~~EXECDIVIDER::'", "echo '{state_directory}'; echo \"$SCRUT_TEST\" | wc -c",
        "head -c 3000000 /dev/zero | tr '\\0' 'a'; head -c 3000000 /dev/zero | tr '\\0' 'b' 1>&2", "yes line | head -n 400000; yes err | head -n 400000 1>&2"];
    let mut out = vec![];
    for c in cmds {
        let tcs = [TestCase { title: "t".into(), shell_expression: "echo first".into(), expectations: vec![], exit_code: None, line_number: 1, config: TestCaseConfig::empty() },
            TestCase { title: "t".into(), shell_expression: c.into(), expectations: vec![], exit_code: None, line_number: 2, config: TestCaseConfig::empty() },
            TestCase { title: "t".into(), shell_expression: "echo last".into(), expectations: vec![], exit_code: None, line_number: 3, config: TestCaseConfig::empty() }];
        let refs: Vec<&TestCase> = tcs.iter().collect();
        for which in ["stateful", "script"] {
            let started = std::time::Instant::now();
            let res = if which == "stateful" {
                StatefulExecutor::new(Box::new(|state: &std::path::Path| Box::new(BashRunner::new(&std::path::PathBuf::from("/bin/bash"), state)) as Box<dyn Runner>)).execute_all(&refs, &context)
            } else { BashScriptExecutor::new(&std::path::PathBuf::from("/bin/bash")).execute_all(&refs, &context) };
            let txt = match res {
                Ok(os) => os.iter().map(|o| { let so = o.stdout.to_bytes(); let se = o.stderr.to_bytes(); format!("[{:?} out {}B {:?} err {}B {:?}]", o.exit_code, so.len(), String::from_utf8_lossy(&so[..so.len().min(50)]), se.len(), String::from_utf8_lossy(&se[..se.len().min(30)])) }).collect::<Vec<_>>().join(" "),
                Err(e) => format!("ERR {}", e.to_string().chars().take(300).collect::<String>()),
            };
            out.push(format!("{{\"cmd\":{},\"executor\":{},\"took\":{},\"result\":{}}}", jstr(c), jstr(which), jstr(&format!("{:?}", started.elapsed())), jstr(&txt)));
        }
    }
    (cmds.len() as u64, out)
}


fn cmd_c06_probe() -> (u64, Vec<String>) {
    use scrut::parsers::markdown::{MarkdownParser, DEFAULT_MARKDOWN_LANGUAGES};
    use scrut::parsers::parser::Parser;
    let docs = ["# T\n\n```scrut \n$ echo a\n```\n", "```scrut {timeout: 3s} \n$ echo a\n```\n", "````\n```scrut\n$ echo a\n```\n````\n", "Title A\n```bash\nx\n```\nMore\n```scrut\n$ echo a\n```\n",
        "``` \n$ echo a\n```\n", "```scrut\t\n$ echo a\n```\n", "```scrut\r\n$ echo a\r\n```\r\n", "# T\n\n```scrut\n$ echo a\n``` \n\n```scrut\n$ echo b\n```\n"];
    let mut out = vec![];
    for d in docs {
        let maker = std::sync::Arc::new(ExpectationMaker::new(RuleRegistry::default()));
        let txt = match MarkdownParser::new(maker, DEFAULT_MARKDOWN_LANGUAGES, None).parse(d) {
            Ok((_, tcs)) => tcs.iter().map(|t| format!("[title={:?} expr={:?} line={} timeout={:?}]", t.title, t.shell_expression, t.line_number, t.config.timeout)).collect::<Vec<_>>().join(" "),
            Err(e) => format!("ERR {e}"),
        };
        out.push(format!("{{\"doc\":{},\"result\":{}}}", jstr(d), jstr(&txt)));
    }
    (docs.len() as u64, out)
}


/// one large output with 200 000 CR LF pairs through the runner (run as a child process of `c13`: a stack overflow kills only the child)
fn cmd_c13_deep() -> (u64, Vec<String>) {
    use scrut::executors::context::Context;
    use scrut::executors::runner::Runner;
    use scrut::executors::subprocess_runner::SubprocessRunner;
    let work = tempfile::tempdir().expect("work dir");
    let temp = tempfile::tempdir().expect("temp dir");
    let context = Context { work_directory: work.path().to_path_buf(), temp_directory: temp.path().to_path_buf(), file: std::path::PathBuf::from("doc.md"), config: DocumentConfig::default() };
    let cmd = "yes $'x\\r' | head -n 200000";
    let tc = TestCase { title: "t".into(), shell_expression: cmd.into(), expectations: vec![], exit_code: None, line_number: 1, config: TestCaseConfig::empty() };
    let want: Vec<u8> = b"x\n".repeat(200000);
    let bad = match SubprocessRunner::new(std::path::PathBuf::from("/bin/bash")).run("t", &tc, &context) {
        Ok(o) if o.stdout.to_bytes() == want => vec![],
        Ok(o) => vec![format!("{{\"why\":{}}}", jstr(&format!("C13: recorded {} bytes, expected {}", o.stdout.to_bytes().len(), want.len())))],
        Err(e) => vec![format!("{{\"why\":{}}}", jstr(&format!("C13: runner error {e}")))],
    };
    (1, bad)
}


// ------------------------------------------------------------------------------------------------ regex kind (C04)
/// BOUNDED: "a `regex` expectation [matches] iff the whole line (final newline ignored) -- not merely a prefix or suffix -- matches the
/// regular expression": for a family of VALID regular expressions (the regex crate compiles them as written) the rule scrut builds is
/// compared with the regex crate's own answer for `^(?:e)$` on a pool of lines. Classed by the construct the expression uses.
fn cmd_regexkind() -> (u64, Vec<String>) {
    use scrut::rules::regex::RegexRule;
    use scrut::rules::rule::RuleMaker;
    let family: Vec<(&str, Vec<&str>)> = vec![
        ("plain", vec!["foo", "fo+", "a|b", "a|bc", "^a", "a$", "(a|b)c", "a.c", "a.*", "\\d+", "\\w+ \\w+", "x?y", "(?i)abc", "caf.", "caf\u{e9}"]),
        ("quantifier", vec!["a{2}", "a{1,2}", "[0-9]{1,}", "x{2,}", "\\d{3,}", "(ab){2}"]),
        ("class", vec!["[abc]+", "[^a]b", "[a-c]x", "\\[[0-9]+] ok", "[ab]x]", "[a-]]", "[[:alpha:]]+", "[a-z&&[^b]]+", "[]a]", "[\\]a]"]),
        ("braced-escape", vec!["\\p{Greek}+", "\\x{e9}", "\\x41", "\\pL+", "\\b{start}foo"]),
        ("word-boundary", vec!["\\<foo\\>", "\\bfoo\\b"]),
        ("group-balance", vec!["foo)|(bar", "(foo|bar)", "(foo)|(bar)"]),
        ("literal-text", vec!["a<<<<3>>>>", "hello\\{world\\}", "a\\.b", "\\(x\\)"]),
    ];
    let pool = ["", "foo", "fooXYZ", "XYZbar", "bar", "a", "b", "bc", "ab", "ac", "abc", "aa", "aaa", "x", "xx", "xy", "y", "123", "1{1,}", "[123] ok", "[+ ok", "ax]", "bx]", "a]", "-]", "[:]", "ABC", "caf\u{e9}", "\u{e9}", "A",
        "\u{3b1}\u{3b2}\u{3b3}", "<foo>", " foo ", "a<<<<3>>>>", "hello{world}", "a.b", "axb", "(x)", "abab", "1234", "ab cd", "]a", "fo", "foooo", "a\nb"];
    let mut n = 0u64;
    let mut bad: Vec<String> = vec![];
    let mut seen: std::collections::BTreeSet<String> = Default::default();
    std::panic::set_hook(Box::new(|_| {}));
    for (class, exprs) in &family {
        for e in exprs {
            // the oracle: the expression as written, anchored as a whole
            if regex::bytes::Regex::new(e).is_err() { 
                // not a regular expression on its own (e.g. unbalanced): scrut must not accept it by wrapping it
                n += 1;
                if let Ok(rule) = RegexRule::make(e) {
                    let witness = pool.iter().find(|l| rule.matches(format!("{l}\n").as_bytes()));
                    if seen.insert(class.to_string()) { bad.push(format!("{{\"class\":{},\"why\":{},\"case\":{}}}", jstr(class), jstr(&format!("C04 regex: `{e}` is not a regular expression, yet it is accepted{}", witness.map(|w| format!(" and matches the line {w:?}")).unwrap_or_default())), jstr(e))); }
                }
                continue;
            }
            let oracle = regex::bytes::Regex::new(&format!("^(?:{e})$")).expect("anchored form compiles");
            let rule = match std::panic::catch_unwind(|| RegexRule::make(e)) {
                Ok(Ok(r)) => r,
                Ok(Err(err)) => { n += 1; if seen.insert(class.to_string()) { bad.push(format!("{{\"class\":{},\"why\":{},\"case\":{}}}", jstr(class), jstr(&format!("C04 regex: the valid regular expression `{e}` is rejected: {err}")), jstr(e))); } continue; }
                Err(_) => { n += 1; bad.push(format!("{{\"class\":\"crash\",\"why\":{},\"case\":{}}}", jstr(&format!("C04 regex: RegexRule::make panics on `{e}`")), jstr(e))); continue; }
            };
            for l in pool {
                if l.contains('\n') && !e.contains("(?s)") { /* lines never contain an inner line feed */ continue; }
                n += 1;
                let want = oracle.is_match(l.as_bytes());
                let got = rule.matches(format!("{l}\n").as_bytes());
                if got != want && seen.insert(class.to_string()) {
                    bad.push(format!("{{\"class\":{},\"why\":{},\"case\":{}}}", jstr(class), jstr(&format!("C04 regex: `{e} (regex)` {} the line {l:?}; the regular expression {} it as a whole", if got { "matches" } else { "does not match" }, if want { "matches" } else { "does not match" })), jstr(&format!("{e} / {l}"))));
                }
            }
        }
    }
    (n, bad)
}

fn cmd_cram_probe() -> (u64, Vec<String>) {
    use scrut::parsers::cram::CramParser;
    use scrut::parsers::parser::Parser;
    let docs = [
        "Title\n  $ echo a\n  a\n  $ echo b\n  b\n",
        "T1\nT2\n  $ echo a\n  > more\n  a\n  [3]\n",
        "  $ echo a\n# comment\n  a\n\n  b\n",
        "T\n  $ a\n  # not a comment\n  [1]\n  [2]\n",
        "T\n  out\n",
        "T\n  $ a\nU\n  $ b\n",
        "T\n  > x\n",
        "T\n  $ a\n  $ b\n\n  c\n",
    ];
    let mut out = vec![];
    for d in docs {
        let maker = std::sync::Arc::new(ExpectationMaker::new(RuleRegistry::default()));
        let r = CramParser::new(maker, 2).parse(d);
        let txt = match r {
            Ok((_, tcs)) => tcs.iter().map(|t| format!("[title={:?} expr={:?} exps={:?} exit={:?} line={} cfg={:?}/{:?}]", t.title, t.shell_expression,
                t.expectations.iter().map(|e| e.original_string()).collect::<Vec<_>>(), t.exit_code, t.line_number, t.config.output_stream, t.config.keep_crlf)).collect::<Vec<_>>().join(" "),
            Err(e) => format!("ERR {e}"),
        };
        out.push(format!("{{\"doc\":{},\"result\":{}}}", jstr(d), jstr(&txt)));
    }
    (docs.len() as u64, out)
}

fn main() {
    let args: Vec<String> = std::env::args().collect();
    let cmd = args.get(1).map(|s| s.as_str()).unwrap_or("");
    let (n, bad) = match cmd {
        "axioms" => cmd_axioms(),
        "diff-one" => {
            // re-run one recorded case: args = optional,multiline,set;... lines(csv) final_newline props
            let es: Vec<E> = args[2].split(';').filter(|x| !x.is_empty()).map(|t| { let v: Vec<&str> = t.split(',').collect(); E { optional: v[0] == "1", multiline: v[1] == "1", set: v[2].parse().unwrap() } }).collect();
            let ls: Vec<u8> = args[3].split(',').filter(|x| !x.is_empty()).map(|x| x.parse().unwrap()).collect();
            let fin = args[4] == "1";
            let maker = ExpectationMaker::new(RuleRegistry::default());
            std::panic::set_hook(Box::new(|_| {}));
            match run_diff_case(&maker, &es, &ls, fin, args.get(5).map(|s| s.as_str()).unwrap_or("all")) {
                Some(w) => (1, vec![format!("{{\"why\":{},\"case\":{}}}", jstr(&w), case_json(&es, &ls, fin))]),
                None => (1, vec![]),
            }
        }
        "diff" => cmd_diff(
            args.get(2).map(|s| s.as_str()).unwrap_or("all"),
            args.get(3).and_then(|s| s.parse().ok()).unwrap_or(2),
            args.get(4).and_then(|s| s.parse().ok()).unwrap_or(3),
        ),
        "escape" => cmd_escape(args.get(2).map(|s| s.as_str()).unwrap_or("both"), args.get(3).and_then(|s| s.parse().ok()).unwrap_or(3), args.get(4).map(|s| s == "matching").unwrap_or(false)),
        "config" => cmd_config(),
        "markdown" => cmd_markdown(),
        "cram-probe" => cmd_cram_probe(),
        "c10-probe" => cmd_c10_probe(),
        "c06-probe" => cmd_c06_probe(),
        "c13-probe" => cmd_c13_probe(),
        "c13-deep" => cmd_c13_deep(),
        "c15" => cmd_c15(args.get(2).and_then(|s| s.parse().ok()).unwrap_or(2)),
        "regexkind" => cmd_regexkind(),
        "c14" => cmd_c14(match (args.get(2).and_then(|s| s.parse().ok()), args.get(3).and_then(|s| s.parse().ok())) { (Some(r), Some(l)) => Some((r, l)), _ => None }),
        "leaves" => cmd_leaves(args.get(2).map(|s| s.as_str()).unwrap_or("markdown")),
        "glob" => cmd_glob(args.get(2).and_then(|s| s.parse().ok()).unwrap_or(3)),
        "c13" => cmd_c13(args.get(2).and_then(|s| s.parse().ok()).unwrap_or(1)),
        "c19" => cmd_c19(args.get(2).and_then(|s| s.parse().ok()).unwrap_or(2)),
        "c09" => cmd_c09(args.get(2).and_then(|s| s.parse().ok()).unwrap_or(3)),
        "c10" => cmd_c10(args.get(2).and_then(|s| s.parse().ok()).unwrap_or(4)),
        "c08" => cmd_c08(args.get(2).and_then(|s| s.parse().ok()).unwrap_or(5)),
        "validate" => cmd_validate(),
        _ => {
            eprintln!("usage: verif-replay axioms|diff|escape|config|validate");
            std::process::exit(3);
        }
    };
    println!("{{\"cmd\":{},\"cases\":{},\"violations\":[{}]}}", jstr(cmd), n, bad.join(","));
    std::process::exit(if bad.is_empty() { 0 } else { 1 });
}
